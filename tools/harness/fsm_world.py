'''Shared world of the C10/C12 drivers: the REAL dawgie.pl.state.FSM (non-doctest
mode), the REAL fe/api/submit.Process and fe/submit.Process, with only the
outside world replaced (deferToThread, reactor.callLater, sockets, git, the
database, the AE scan, graphviz output).  The case decides when every deferred
step / poller iteration / callback runs.

Event language (JSON lists), shared with coq/Model/Fsm.v and Model/Submit.v:
  ["Fire", trigger]            fsm.<trigger>()               (by hand)
  ["Done", i]                  i-th outstanding background step completes
  ["EBoot"]                    pl/__main__.py Start.run
  ["ESubStart", k, prio]       submit endpoint k (0 = fe/api, 1 = fe/app) called
  ["ESubFail", k]              compliance failed: VerifyHandler -> Process.failure
  ["ESubDone", k, prio]        compliance passed: Process.step_3 (prio string)
  ["EIdleArchive"]             farm.dispatch with nothing to do
  ["ECmdReset", archive]       fe/api cmd_reset
  ["ENewData"]                 farm.ARCHIVE |= True
  ["EWaiterUpdate"]            fsm.update_trigger() as a waiter would (C10 only)
  ["SetInfo", prio]            fsm.set_submit_info('c', prio)      (by hand)
  ["Crossroads"]               fsm.submit_crossroads()             (by hand)
  ["Poll", kind, b, d, q]      the poller thread of `kind` evaluates its loop
                               condition once, the world being busy=b doing=d que=q
  ["DoneCb", kind, b, d, q]    the reactor runs the poller's callback
'''
import logging
import os
import sys
import tempfile
import traceback

from hcommon import dawgie  # noqa: F401  (asserts /repo/Python)

logging.disable(logging.CRITICAL)
import dawgie.context  # noqa: E402

TMP = tempfile.mkdtemp(prefix='fsmworld')
dawgie.context.fe_path = TMP
dawgie.context.data_dbs = TMP
os.makedirs(os.path.join(TMP, 'ae', '.git'), exist_ok=True)
dawgie.context.ae_base_path = os.path.join(TMP, 'ae')

import pydot  # noqa: E402
import twisted.internet.threads as TT  # noqa: E402
import twisted.internet.reactor as REACTOR  # noqa: E402
import transitions  # noqa: E402

KIND = {'_pipeline': 'BgPipeline', '_navel_gaze': 'BgNavel',
        '_reload': 'BgReload', '_archive': 'BgArchive',
        'is_crew_done': 'crew', 'is_doing_done': 'doing',
        'is_todo_done': 'todo'}
POLLERS = ('crew', 'doing', 'todo')


class StillPolling(BaseException):
    pass


class FakeDeferred:
    def __init__(self, world, f, a, k):
        self.f, self.a, self.k = f, a, k
        self.kind = KIND.get(getattr(f, '__name__', '?'), 'other:' + getattr(f, '__name__', '?'))
        self.cbs = []
        self.finished = False     # pollers: thread body returned

    def addCallbacks(self, cb, eb=None, *a, **k):
        self.cbs.append(cb)
        return self

    def addCallback(self, cb, *a, **k):
        self.cbs.append(cb)
        return self

    def addErrback(self, eb, *a, **k):
        return self

    def body(self):
        return self.f(*self.a, **self.k)

    # pollers run in a real thread that only advances when the case says so
    thread = None
    killed = False
    error = None

    def step(self):
        '''one evaluation of the poller's loop condition; True when the thread
        body has returned'''
        import threading
        if self.thread is None:
            self.parked = threading.Event()
            self.resume = threading.Event()
            self.ended = threading.Event()

            def run():
                try:
                    self.body()
                except SystemExit:
                    pass
                except BaseException as e:   # noqa: BLE001
                    self.error = e
                finally:
                    self.ended.set()
                    self.parked.set()

            self.thread = threading.Thread(target=run, daemon=True)
            self.thread.verif_poller = self
            self.thread.start()
        else:
            self.parked.clear()
            self.resume.set()
        self.parked.wait()
        if self.error is not None:
            e, self.error = self.error, None
            raise e
        return self.ended.is_set()

    def kill(self):
        if self.thread is not None and not self.ended.is_set():
            self.killed = True
            self.resume.set()
            self.thread.join(2)


class World:
    def __init__(self, initial=None):
        self.bg = []          # outstanding background steps (FakeDeferred), oldest first
        self.pollers = []     # live pollers (thread running or callback outstanding)
        self.later = []       # reactor.callLater captures
        self.hops = []
        self.updates = []     # calls of update_trigger: (who, env, result)
        self.env = (False, False, False)
        self.current = None   # event being executed
        self.procs = {0: None, 1: None}
        self._install()
        import dawgie.pl.state as ST
        self.ST = ST
        self.fsm = ST.FSM(initial_state=initial) if initial else ST.FSM()
        dawgie.context.fsm = self.fsm
        self.fsm.time_machine = self.FakeRollback()
        self.fsm._security = lambda: None      # sockets / keys: outside world
        self.fsm._gui = lambda: None
        self.fsm._logging = lambda: None
        m = self.fsm.machine
        orig_set = m.set_state

        def set_state(state, model=None):
            self.hops.append([self.fsm.state, state if isinstance(state, str) else state.name])
            return orig_set(state, model)

        m.set_state = set_state
        orig_upd = self.fsm.update_trigger

        def update_trigger(*a, **k):
            rec = {'during': self.current, 'env': list(self.env)}
            self.updates.append(rec)
            try:
                r = orig_upd(*a, **k)
                rec['result'] = 'accepted'
                return r
            except BaseException as e:
                rec['result'] = classify(e)
                raise

        self.fsm.update_trigger = update_trigger
        self.defer = [self.API.Defer(), self.APP.Defer()]
        for d in self.defer:
            d.request = FakeRequest()

    class FakeRollback:
        def reload(self):
            return None

    # ---- the outside world ----------------------------------------------
    def _install(self):
        import dawgie.db
        import dawgie.pl.farm as F
        import dawgie.pl.resources
        import dawgie.pl.scan
        import dawgie.pl.schedule as S
        import dawgie.pl.state as ST
        import dawgie.pl.version
        import dawgie.tools.submit as TS
        import dawgie.fe.api.submit as API
        import dawgie.fe.submit as APP

        self.F, self.S, self.API, self.APP, self.TS = F, S, API, APP, TS
        world = self

        def defer_to_thread(f, *a, **k):
            d = FakeDeferred(world, f, a, k)
            (world.pollers if d.kind in POLLERS else world.bg).append(d)
            return d

        TT.deferToThread = defer_to_thread
        REACTOR.callLater = lambda delay, f, *a, **k: world.later.append((f, a, k))
        pydot.Dot.write_svg = lambda self_, *a, **k: True   # graphviz output
        ST.RollbackImporter = World.FakeRollback

        class Clock:                                  # time.sleep inside a poller = yield
            @staticmethod
            def sleep(_s):
                import threading
                p = getattr(threading.current_thread(), 'verif_poller', None)
                if p is None:
                    raise StillPolling()
                # a poller thread: park until the case schedules its next
                # iteration (the loop condition is then re-evaluated by the
                # SAME invocation of is_*_done, as in the running pipeline)
                p.resume.clear()
                p.parked.set()
                p.resume.wait()
                if p.killed:
                    raise SystemExit()

        ST.time = Clock
        F.plow = lambda: None
        F.ARCHIVE = False
        F._busy.clear()
        S.que = []
        prev = getattr(World, 'current', None)
        if isinstance(prev, World):
            for p in prev.pollers:
                p.kill()
        facs = {k: [] for k in dawgie.Factories}
        dawgie.pl.scan.for_factories = lambda *a, **k: facs
        dawgie.db.open = lambda *a, **k: None
        dawgie.db.close = lambda *a, **k: None
        dawgie.db.reopen = lambda *a, **k: False
        dawgie.db.archive = lambda done: done()
        dawgie.db.metrics = lambda *a, **k: []
        S.build = lambda *a, **k: None
        S.periodics = lambda *a, **k: None
        dawgie.pl.version.current = lambda *a, **k: [{}, {}, {}]
        dawgie.pl.version.persistent = lambda *a, **k: [{}, {}, {}, {}]
        dawgie.pl.resources.last_runid = lambda *a, **k: 0
        dawgie.pl.resources.distribution = lambda *a, **k: {}
        dawgie.context._rev = lambda *a, **k: 'rev'
        TS.already_applied = lambda *a, **k: False
        TS.mail_out = lambda *a, **k: None
        TS.automatic = lambda *a, **k: TS.State.SUCCESS
        World.current = self
        for mod in (API, APP):
            if hasattr(mod.Process, '_verif_orig_step_0'):
                continue                                  # instrument once per process
            orig = mod.Process.step_0
            mod.Process._verif_orig_step_0 = orig

            def step_0(proc, _orig=orig):
                World.current.new_proc = proc
                return _orig(proc)

            mod.Process.step_0 = step_0

    def set_env(self, b, d, q):
        '''busy workers / a job executing / the queue non-empty'''
        F, S = self.F, self.S
        self.env = (bool(b), bool(d), bool(q))
        F._busy[:] = ['x.y[T]'] if b else []
        items = []
        if d:
            items.append(FakeJob('run.job', S.State.running))
        if q and not d:
            items.append(FakeJob('wait.job', S.State.waiting))
        # the scheduler both mutates its queue in place (complete: que.remove,
        # defer: que.append/sort) and rebinds it (organize: que = sorted(...),
        # build: que = []); the world alternates between the two
        self.nenv = getattr(self, 'nenv', 0) + 1
        if self.nenv % 2:
            S.que = items
        else:
            S.que[:] = items

    # ---- observation -----------------------------------------------------
    def observe(self):
        fsm = self.fsm
        pr = fsm._FSM__prior
        o = {
            'st': fsm.state,
            'tr': fsm.transitioning.name,
            'prior': pr,
            'pending': [d.kind for d in self.bg],
            'archive': bool(self.F.ARCHIVE),
            'active': bool(fsm.is_pipeline_active()),
            'priority': None if fsm.priority is None else fsm.priority.name,
            'waits': [not fsm.wait_on_crew.is_set(), not fsm.wait_on_doing.is_set(),
                      not fsm.wait_on_todo.is_set()],
            'handles': [self._handle(fsm.crew_thread), self._handle(fsm.doing_thread),
                        self._handle(fsm.todo_thread)],
            'orphans': len([p for p in self.pollers
                            if p not in (fsm.crew_thread, fsm.doing_thread, fsm.todo_thread)]),
            'insub': [self._insub(0), self._insub(1)],
        }
        return o

    def _insub(self, k):
        busy = bool(getattr(self.defer[k], '_Defer__busy'))
        if self.procs[k] is not None:
            return 1
        return 2 if busy else 0

    def _handle(self, h):
        if h is None:
            return 'None'
        if h in self.pollers:
            return 'Finished' if h.finished else 'Polling'
        return 'Dead'

    # ---- events ------------------------------------------------------------
    def do(self, ev):
        '''run one event on the real code; returns the observation record'''
        self.current = ev
        self.hops = []
        n_upd = len(self.updates)
        out = 'Ok'
        try:
            r = self._do(ev)
            if r == 'Noop':
                out = 'Noop'
        except StillPolling:
            out = 'Ok'
        except BaseException as e:   # noqa: BLE001
            out = classify(e)
        o = self.observe()
        o['out'] = out
        o['hops'] = self.hops
        o['updates'] = self.updates[n_upd:]
        return o

    def _flush_later(self):
        '''run what reactor.callLater(0, ...) captured (the Deferred chains of
        Process.step_0 / VerifyHandler.processEnded).  A real Deferred turns
        an exception of a callback into a Failure handed to the next errback;
        what no errback handles stays in d.result ("Unhandled error in
        Deferred"): returned so that the event reports it.'''
        import twisted.internet.defer as D
        import twisted.python.failure as TF
        err = None
        while self.later:
            f, a, k = self.later.pop(0)
            f(*a, **k)
            d = getattr(f, '__self__', None)
            if isinstance(d, D.Deferred) and isinstance(getattr(d, 'result', None), TF.Failure):
                if err is None:
                    err = d.result.value
                d.addErrback(lambda _f: None)
        return err

    def _do(self, ev):
        fsm, k = self.fsm, ev[0]
        if k == 'Fire':
            getattr(fsm, ev[1])()
        elif k == 'Done':
            if ev[1] >= len(self.bg):
                return 'Noop'
            d = self.bg.pop(ev[1])
            r = d.body()
            for cb in d.cbs:
                cb(r)
        elif k == 'EBoot':
            fsm.starting_trigger()
        elif k == 'ESubStart':
            e = ev[1]
            if e not in (0, 1):
                return 'Noop'
            self.new_proc = None
            if self.procs[e] is not None:       # (endpoint 1) one outstanding compliance run
                return 'Noop'
            res = self.defer[e](changeset=['abc123'], submission=[ev[2]])
            if self.new_proc is None:           # 'Submission already in progress'
                return 'Noop'
            proc = self.new_proc
            self.procs[e] = proc
            err = self._run_chain()
            if err is not None:
                raise err
            if getattr(proc, '_Process__failed'):      # step_1 refused -> failure()
                self.procs[e] = None
                if not self.hops:
                    return 'Noop'
        elif k == 'ESubFail':
            proc = self.procs.get(ev[1])
            if proc is None:
                return 'Noop'
            self.procs[ev[1]] = None
            h = len(self.hops)
            import twisted.python.failure
            proc.failure(twisted.python.failure.Failure(Exception()))
            if len(self.hops) == h:
                return 'Noop'
        elif k == 'ESubDone':
            proc = self.procs.get(ev[1])
            if proc is None:
                return 'Noop'
            self.procs[ev[1]] = None
            # the priority travels with the Process; the case chooses it at the end
            mod = self.API if ev[1] == 0 else self.APP
            setattr(proc, '_Process__submission', ev[2])
            # VerifyHandler.processEnded (normal exit): Deferred -> step_3
            mod.VerifyHandler(proc).processEnded(FakeReason())
            err = self._run_chain(errback=proc.failure)
            if err is not None:
                raise err
        elif k == 'EIdleArchive':
            # farm.dispatch up to the archiving trigger, with empty queues
            F = self.F
            self.set_env(False, False, False)
            if not F.something_to_do():
                return 'Noop'
            if (F.ARCHIVE and not self.S.promote.more()
                    and not sum([len(F._jobs), len(F._busy), len(F._cluster), len(F._cloud)])):
                fsm.archiving_trigger()
            else:
                return 'Noop'
        elif k == 'ECmdReset':
            import dawgie.fe.api
            h = len(self.updates)
            dawgie.fe.api.cmd_reset(['true' if ev[1] else 'false'])
            if len(self.updates) == h:
                return 'Noop'
        elif k == 'ENewData':
            self.F.ARCHIVE |= True
        elif k == 'EWaiterUpdate':
            fsm.update_trigger()
        elif k == 'SetInfo':
            fsm.set_submit_info('c', ev[1])
        elif k == 'Crossroads':
            fsm.submit_crossroads()
        elif k == 'Poll':
            self.set_env(*ev[2:5])
            p = self._poller(ev[1])
            if p is None or p.finished:
                return 'Noop'
            if not p.step():         # the loop continues: the thread is parked in time.sleep
                raise StillPolling()
            p.finished = True
        elif k == 'DoneCb':
            self.set_env(*ev[2:5])
            p = self._poller(ev[1])
            if p is None or not p.finished:
                return 'Noop'
            self.pollers.remove(p)
            for cb in p.cbs:
                cb(None)
        else:
            raise ValueError('unknown event %r' % (ev,))
        return None

    def _run_chain(self, errback=None):
        return self._flush_later()

    def _poller(self, kind):
        for p in self.pollers:
            if p.kind == kind:
                return p
        return None


class FakeJob:
    def __init__(self, tag, status):
        self.tag = tag
        self._d = {'status': status, 'doing': {'T'}, 'todo': set()}

    def get(self, k, default=None):
        return self._d.get(k, default)


class FakeRequest:
    def write(self, *_a):
        return None

    def finish(self):
        return None


class FakeReason:
    value = None


def classify(e):
    tb = traceback.extract_tb(e.__traceback__)
    inner = tb[-1].name if tb else ''
    if isinstance(e, transitions.MachineError) and "Can't trigger event" in str(e):
        return 'Rejected'
    if inner == 'transitioning':
        return 'SetterErr'
    if inner == '_archive_done' and isinstance(e, TypeError):
        return 'NoPrior'
    if inner == '_archive_done' and isinstance(e, AttributeError):
        return 'NoAttr'
    return 'Other:' + type(e).__name__


def documented_edges():
    '''the transitions of state.dot as pydot reads them (independent of the
    translator): [source, dest, trigger]'''
    import dawgie.pl.state as ST
    g = pydot.graph_from_dot_file(os.path.join(os.path.dirname(ST.__file__), 'state.dot'))[0]
    return [[e.get_source(), e.get_destination(), e.get_attributes().get('trigger')]
            for e in g.get_edges()]


def run_case(case):
    '''case = {"initial": state or None, "events": [...]} -> list of observations'''
    w = World(case.get('initial'))
    return [w.do(ev) for ev in case['events']]
