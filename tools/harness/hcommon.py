'''Common prologue of every implementation-side driver: make sure the code
under test is /repo/Python (NOT the dawgie release installed in /venv), read
the JSON payload, write the JSON result.'''
import json
import os
import sys

REPO = os.environ.get('VERIF_REPO', '/repo')
sys.path.insert(0, os.path.join(REPO, 'Test'))
sys.path.insert(0, os.path.join(REPO, 'Python'))

import dawgie  # noqa: E402

if not os.path.realpath(dawgie.__file__).startswith(
    os.path.realpath(os.path.join(REPO, 'Python')) + os.sep
):
    sys.stderr.write(
        'FATAL: dawgie imported from %s, not from %s/Python\n'
        % (dawgie.__file__, REPO)
    )
    sys.exit(3)


def payload():
    return json.load(open(sys.argv[1]))


def result(obj):
    with open(sys.argv[2], 'w') as f:
        json.dump(obj, f, default=str)
