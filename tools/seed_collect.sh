#!/bin/bash
# tools/seed_collect.sh <Cxx> [n]: copy a sub-agent's deliverables (scratch worktree /tmp/seed/Cxx/SEED) to /verif/seeded/Cxx-n/
P=$1; N=${2:-1}; B=${SEEDBASE:-/tmp/seed}; S=$B/$P/SEED; D=/verif/seeded/$P-$N
mkdir -p $D
git -C $B/$P diff -- Python > $D/patch.diff
cp $S/demo.py $D/demo.py
cp $S/NOTES.md $D/NOTES.md 2>/dev/null
[ -f $D/meta.json ] || echo "{\"property\": \"$P\", \"origin\": \"independent sub-agent given only the property text and a scratch worktree\"}" > $D/meta.json
wc -l $D/patch.diff
