#!/usr/bin/env python3
'''tools/seed_eval.py <name> [--checks C01,C03] [--tier quick] [--skip-confirm]

Confirm a seeded change kept in /verif/seeded/<name>/ (patch.diff + demo.py)
and run checks of this framework against it.

 1. scratch worktree of /repo HEAD under /tmp/sv/<name>;
 2. demo on the unchanged tree must exit 0;
 3. `git apply patch.diff`; demo must exit != 0;
 4. the test-suite (PYTHONPATH = the worktree, so that the tests see the edit)
    must pass exactly the tests it passes on the unchanged tree;
 5. a scratch copy of /verif (with its built .vo files) under /tmp/vc/<name>
    runs `./check <id>` with VERIF_REPO=<worktree>: the check is expected to
    exit 1 with a VIOLATION line;
 6. results -> /verif/seeded/<name>/meta.json (+ check_<id>.txt);
 7. worktree and copy removed.
'''
import argparse
import json
import os
import re
import shutil
import subprocess
import sys
import time

VERIF = os.path.dirname(os.path.dirname(os.path.abspath(__file__)))
PY = '/venv/bin/python'


def sh(cmd, cwd=None, env=None, timeout=None):
    p = subprocess.run(cmd, shell=True, cwd=cwd, env=env, text=True,
                       stdout=subprocess.PIPE, stderr=subprocess.STDOUT,
                       timeout=timeout)
    return p.returncode, p.stdout


def suite(wt):
    env = dict(os.environ, PYTHONPATH='%s/Python:%s/Test' % (wt, wt),
               PYTHONHASHSEED='0')
    # a few tests bind fixed ports: one suite at a time on this machine
    rc, out = sh('flock /tmp/sv/suite.lock ' + PY +
                 ' -m pytest -q -rA -p no:cacheprovider --timeout=900 '
                 '--continue-on-collection-errors 2>&1', cwd=wt, env=env,
                 timeout=3600)
    passed = sorted(set(re.findall(r'^PASSED (\S+)', out, flags=re.M)))
    return passed


def save(meta_p, meta, keys):
    '''write only what this invocation established: another invocation (a
    confirmation running beside an evaluation) may have written meanwhile'''
    cur = json.load(open(meta_p)) if os.path.exists(meta_p) else {}
    for k in keys:
        if k in meta:
            if k == 'checks':
                cur.setdefault('checks', {}).update(meta['checks'])
            else:
                cur[k] = meta[k]
    json.dump(cur, open(meta_p, 'w'), indent=1)


def main():
    ap = argparse.ArgumentParser()
    ap.add_argument('name')
    ap.add_argument('--checks', default=None)
    ap.add_argument('--tier', default='quick')
    ap.add_argument('--skip-confirm', action='store_true')
    ap.add_argument('--confirm-only', action='store_true')
    a = ap.parse_args()
    sd = os.path.join(VERIF, 'seeded', a.name)
    meta_p = os.path.join(sd, 'meta.json')
    meta = json.load(open(meta_p)) if os.path.exists(meta_p) else {}
    prop = meta.get('property') or a.name.split('-')[0]
    meta['property'] = prop
    checks = (a.checks.split(',') if a.checks
              else meta.get('checks_expected') or [prop])
    wt = '/tmp/sv/%s-%d' % (a.name, os.getpid())
    vc = '/tmp/vc/%s-%d' % (a.name, os.getpid())
    os.makedirs('/tmp/sv', exist_ok=True)
    os.makedirs('/tmp/vc', exist_ok=True)
    sh('git -C /repo worktree remove --force %s' % wt)
    shutil.rmtree(wt, ignore_errors=True)
    shutil.rmtree(vc, ignore_errors=True)
    rc, out = sh('git -C /repo worktree add --detach %s HEAD' % wt)
    if rc:
        print(out)
        return 2
    try:
        head = sh('git -C /repo rev-parse --short HEAD')[1].strip()
        meta['repo_head'] = head
        env = dict(os.environ, PYTHONPATH='%s/Python:%s/Test' % (wt, wt),
                   PYTHONHASHSEED='0')
        os.makedirs(wt + '/SEED', exist_ok=True)
        for f in os.listdir(sd):
            if f.endswith('.py') or f.endswith('.diff'):
                shutil.copy(os.path.join(sd, f), wt + '/SEED/' + f)
        ran = meta.setdefault('ran', {})
        if not a.skip_confirm:
            base_ids_p = '/tmp/sv/base_ids_%s.json' % head
            if os.path.exists(base_ids_p):
                base = json.load(open(base_ids_p))
            else:
                base = suite(wt)
                json.dump(base, open(base_ids_p, 'w'))
            d0, o0 = sh(PY + ' SEED/demo.py', cwd=wt, env=env, timeout=900)
            rc, out = sh('git apply SEED/patch.diff', cwd=wt)
            if rc:
                print('patch does not apply:', out)
                return 2
            d1, o1 = sh(PY + ' SEED/demo.py', cwd=wt, env=env, timeout=900)
            after = suite(wt)
            # tests that listen on fixed ports flake when several suites run
            # at once: re-run whatever is missing, alone, up to 3 times
            for tid in [t for t in base if t not in after]:
                for _k in range(3):
                    rc_t, _o = sh('flock /tmp/sv/suite.lock ' + PY + ' -m pytest -q -p no:cacheprovider '
                                  '--timeout=900 "%s"' % tid, cwd=wt, env=env,
                                  timeout=900)
                    if rc_t == 0:
                        after = sorted(set(after + [tid]))
                        break
                    time.sleep(5)
            ran['demo_unchanged_exit'] = d0
            ran['demo_changed_exit'] = d1
            ran['demo_changed_tail'] = o1[-600:]
            ran['suite_passed_unchanged'] = len(base)
            ran['suite_passed_changed'] = len(after)
            ran['suite_same_pass_set'] = base == after
            ran['confirmed'] = (d0 == 0 and d1 != 0 and base == after)
            print('demo unchanged=%s changed=%s suite %d/%d same=%s'
                  % (d0, d1, len(after), len(base), base == after))
        else:
            rc, out = sh('git apply SEED/patch.diff', cwd=wt)
            if rc:
                print('patch does not apply:', out)
                return 2
        if a.confirm_only:
            save(meta_p, meta, ('ran', 'repo_head', 'property'))
            return 0
        # scratch copy of the framework
        # SEED_VERIF_SRC: a clean built checkout of /verif's HEAD (so that
        # edits in progress in /verif do not leak into the evaluation)
        src = os.environ.get('SEED_VERIF_SRC', VERIF)
        sh('rsync -a --exclude .git --exclude work --exclude replays '
           '--exclude seeded %s/ %s/' % (src, vc))
        res = meta.setdefault('checks', {})
        for c in checks:
            t0 = time.time()
            env2 = dict(os.environ, VERIF_REPO=wt)
            rc, out = sh('./check %s --tier %s' % (c, a.tier), cwd=vc,
                         env=env2, timeout=7200)
            viol = re.findall(r'^VIOLATION.*$', out, flags=re.M)
            known = re.findall(r'^KNOWN-FINDING.*$', out, flags=re.M)
            res[c] = {'tier': a.tier, 'exit': rc, 'violations': viol[:6],
                      'wall_s': round(time.time() - t0),
                      'caught': rc == 1 and bool(viol)}
            open(os.path.join(sd, 'check_%s.txt' % c), 'w').write(out[-20000:])
            # keep the replay files named by the violations
            for v in viol[:3]:
                m = re.search(r'replay=(\S+)', v)
                if m:
                    rp = m.group(1)
                    rp = rp if os.path.isabs(rp) else os.path.join(vc, rp)
                    rp = rp.replace(VERIF + '/', vc + '/')
                    if os.path.exists(rp):
                        shutil.copy(rp, os.path.join(
                            sd, 'replay_%s_%s' % (c, os.path.basename(rp))))
            print('check %s exit=%s caught=%s %ds %s' % (
                c, rc, res[c]['caught'], res[c]['wall_s'],
                (viol or ['-'])[0][:160]))
        save(meta_p, meta, ('checks', 'repo_head', 'property') + (() if a.skip_confirm else ('ran',)))
    finally:
        sh('git -C /repo worktree remove --force %s' % wt)
        shutil.rmtree(wt, ignore_errors=True)
        shutil.rmtree(vc, ignore_errors=True)
        sh('git -C /repo worktree prune')
    return 0


if __name__ == '__main__':
    sys.exit(main())
