#!/bin/bash
# tools/seed_eval.sh <Cxx> <worktree> [check ids...] : confirm a seeded change and run checks against it.
# 1) demo on unchanged tree (git stash) must exit 0; with the change must exit != 0
# 2) ./check <ids> with VERIF_REPO=<worktree> must exit 1
set -u
P=$1; WT=$2; shift 2; CHECKS=${@:-$P}
N=${SEEDN:-1}
OUT=/verif/seeded/$P-$N
mkdir -p $OUT
cp $WT/SEED/patch.diff $WT/SEED/demo.py $WT/SEED/NOTES.md $OUT/ 2>/dev/null
cd $WT
git apply -R --check SEED/patch.diff 2>/dev/null || { echo "patch not applied in worktree?"; }
git stash -q -- Python
PYTHONPATH=$WT/Python timeout 300 /venv/bin/python SEED/demo.py > $OUT/demo_unchanged.txt 2>&1; D0=$?
git stash pop -q
PYTHONPATH=$WT/Python timeout 300 /venv/bin/python SEED/demo.py > $OUT/demo_changed.txt 2>&1; D1=$?
echo "demo unchanged exit=$D0 changed exit=$D1"
RES=""
cd /verif
for C in $CHECKS; do
  VERIF_REPO=$WT timeout 3000 ./check $C > $OUT/check_$C.txt 2>&1; R=$?
  V=$(grep -c "^VIOLATION" $OUT/check_$C.txt)
  echo "check $C exit=$R violations=$V: $(grep '^VIOLATION' $OUT/check_$C.txt | head -2 | tr '\n' ' ')"
  RES="$RES $C:$R"
done
echo "{\"property\": \"$P\", \"demo_unchanged_exit\": $D0, \"demo_changed_exit\": $D1, \"checks\": \"$RES\"}" > $OUT/result.json
