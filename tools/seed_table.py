#!/usr/bin/env python3
'''print the table of seeded changes and what the checks said (from seeded/*/meta.json)'''
import glob, json, os
V = os.path.dirname(os.path.dirname(os.path.abspath(__file__)))
for m in sorted(glob.glob(V + '/seeded/*/meta.json')):
    d = json.load(open(m))
    r = d.get('ran', {})
    cs = d.get('checks', {})
    print('%-7s confirmed=%-5s demo %s/%s suite_same=%-5s | %s' % (
        os.path.basename(os.path.dirname(m)), r.get('confirmed'),
        r.get('demo_unchanged_exit'), r.get('demo_changed_exit'), r.get('suite_same_pass_set'),
        '; '.join('%s[%s]:%s%s' % (c, v.get('tier', '?')[0], 'CAUGHT' if v['caught'] else 'missed(exit %s)' % v['exit'],
                  ' nfi' if any('no-failing-input-found' in x for x in v['violations']) else '')
                  for c, v in sorted(cs.items()))))
