#!/usr/bin/env python3
'''print the table of seeded changes and what the checks said (from seeded/*/meta.json)'''
import glob, json, os
V = os.path.dirname(os.path.dirname(os.path.abspath(__file__)))
for m in sorted(glob.glob(V + '/seeded/*/meta.json')):
    d = json.load(open(m))
    r = d.get('ran', {})
    cs = d.get('checks', {})
    print('%-7s confirmed=%-5s demo %s/%s suite_same=%-5s | %s' % (
        os.path.basename(os.path.dirname(m)), r.get('confirmed'),
        r.get('demo_unchanged_exit'), r.get('demo_changed_exit'), r.get('suite_same_pass_set'),
        '; '.join('%s[%s]:%s%s' % (c, v.get('tier', '?')[0], 'CAUGHT' if v['caught'] else 'missed(exit %s)' % v['exit'],
                  ' nfi' if any('no-failing-input-found' in x for x in v['violations']) else '')
                  for c, v in sorted(cs.items()))))


def markdown():
    rows = ['| seed | what the change needs in order to manifest | checks (quick) | first evaluation |', '|---|---|---|---|']
    for m in sorted(glob.glob(V + '/seeded/*/meta.json')):
        d = json.load(open(m))
        name = os.path.basename(os.path.dirname(m))
        cs = d.get('checks', {})
        res = []
        for c, v in sorted(cs.items()):
            r = 'caught' if v.get('caught') else 'MISSED'
            if any('no-failing-input-found' in x for x in v.get('violations', [])):
                r += ' (nfi)'
            res.append('%s: %s' % (c, r))
        rows.append('| %s | %s | %s | %s |' % (name, d.get('needs_to_manifest', '').replace('|', '/'),
                                             '; '.join(res), d.get('history', 'caught')))
    return '\n'.join(rows)


if __name__ == '__main__':
    import sys
    if sys.argv[1:] == ['--design']:
        p = V + '/DESIGN.md'
        s = open(p).read()
        i = s.index('<!-- SEEDTABLE -->') + len('<!-- SEEDTABLE -->\n')
        j = s.index('\n<!-- /SEEDTABLE -->')
        open(p, 'w').write(s[:i] + markdown() + s[j:])
        print('DESIGN.md table refreshed')
