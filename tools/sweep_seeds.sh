#!/bin/bash
# tools/sweep_seeds.sh [seeds...]   (default: 1 2 3)
# Runs every check's quick tier on the unchanged /repo with several seeds, three
# checks at a time, from a clean built checkout of /verif's HEAD (so that the
# committed evidence/ is not rewritten).  A check that prints VIOLATION or exits
# non-zero here is a false alarm of the machinery (or a genuine defect): look
# at it before committing.  Summary: /tmp/sweep_seeds/summary.txt
set -u
V=$(cd "$(dirname "$0")/.." && pwd)
W=/tmp/sweep_seeds/verif
mkdir -p /tmp/sweep_seeds
if [ ! -d $W ]; then git -C $V worktree add --detach $W HEAD -q; fi
git -C $W checkout -q -- . ; git -C $W checkout -q --detach $(git -C $V rev-parse HEAD)
(cd $W && ./check --setup | tail -1)
: > /tmp/sweep_seeds/summary.txt
for S in ${@:-1 2 3}; do
  (cd $W && ls props/C??.py | sed 's#props/##; s#.py##' | xargs -P 3 -I{} bash -c \
   "VERIF_SEED=$S timeout 3400 ./check {} --tier quick > /tmp/sweep_seeds/{}.s$S.log 2>&1; echo \"{} seed $S exit \$? violations \$(grep -c '^VIOLATION' /tmp/sweep_seeds/{}.s$S.log)\" >> /tmp/sweep_seeds/summary.txt")
done
grep -v 'exit 0 violations 0' /tmp/sweep_seeds/summary.txt && exit 1
echo "all quiet"
