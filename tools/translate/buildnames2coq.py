'''buildnames2coq.py -- fail-closed translation of the NAME-level part of
dawgie.pl.schedule.build() to Gallina (coq/Gen/BuildNamesGen.v):

  * `_diff` on dictionaries keyed by names (strings = lists of code points):
    the test is translated by diff2coq.py (same accepted shapes) and renamed
    to the name-keyed primitives;
  * the three calls   dalg = _diff(latest[i], previous[j])   (indices read
    from the source) and the set comprehension

        ans = {'.'.join(item.split('.')[:2]) for item in dalg + dsv + dv}

    (separator characters and the slice bound read from the source);
  * the test of dawgie.pl.dag.Node.locate   `name == self.tag`   that maps a
    name of `ans` to the nodes it schedules.

Every other statement of build() and of Node.locate must be EXACTLY the pinned
text below (compared as ast dumps): anything else -> exit 2, the check then
takes the "correspondence broken -> search a failing input" path.'''
import ast
import contextlib
import hashlib
import io
import os
import re
import sys

sys.path.insert(0, os.path.dirname(os.path.abspath(__file__)))
import diff2coq  # noqa: E402

REPO = os.environ.get('VERIF_REPO', '/repo')
SCHED = os.path.join(REPO, 'Python/dawgie/pl/schedule.py')
DAG = os.path.join(REPO, 'Python/dawgie/pl/dag.py')
Unsupported = diff2coq.Unsupported

# the statements of build() this translator does NOT translate: they are the
# part modelled by hand in Model/Sched.v (build/organize) and must not move
PINNED_BUILD = '''
dawgie.pl.schedule.ae = dawgie.pl.dag.Construct(factories)
promote.ae = dawgie.pl.schedule.ae
promote.organize = dawgie.pl.schedule.organize
dawgie.pl.schedule.que = []
dawgie.pl.schedule.per = []
DIFF
DIFF
DIFF
ANS
rev = dawgie.context.git_rev
trglist = dawgie.db.targets()
for tn in ans:
    for t in dawgie.pl.schedule.ae.at:
        for n in t.locate(tn):
            n.set(
                'todo',
                dawgie.util.fifo.Unique(
                    ['__all__'] if _is_asp(n) else trglist
                ),
            )
        pass
    pass
organize(ans, event=f'New software changeset {rev}')
return
'''

PINNED_LOCATE = '''
result = [self] if TEST else []
for child in filter(lambda c, n=self.tag: c.tag != n, self):
    result.extend(child.locate(name))
return result
'''


def is_name(e, n):
    return isinstance(e, ast.Name) and e.id == n


def strip(body):
    '''drop docstrings, `pass` and log.info(...) lines'''
    out = []
    for s in body:
        if isinstance(s, ast.Pass):
            continue
        if isinstance(s, ast.Expr) and isinstance(s.value, ast.Constant):
            continue
        if (isinstance(s, ast.Expr) and isinstance(s.value, ast.Call)
                and isinstance(s.value.func, ast.Attribute)
                and is_name(s.value.func.value, 'log')
                and s.value.func.attr in ('info', 'debug')
                and all(isinstance(a, ast.Constant) for a in s.value.args)
                and not s.value.keywords):
            continue
        out.append(s)
    return out


def dump(s):
    '''ast dump with nested `pass` removed'''
    s = ast.parse(ast.unparse(s))

    class P(ast.NodeTransformer):
        def generic_visit(self, node):
            super().generic_visit(node)
            for f in ('body', 'orelse'):
                b = getattr(node, f, None)
                if isinstance(b, list) and any(isinstance(x, ast.Pass) for x in b):
                    nb = [x for x in b if not isinstance(x, ast.Pass)]
                    setattr(node, f, nb or ([ast.Pass()] if f == 'body' else []))
            return node

    return ast.dump(P().visit(s))


def find_fn(body, name):
    fn = [n for n in body if isinstance(n, ast.FunctionDef) and n.name == name]
    if len(fn) != 1:
        raise Unsupported('%s not found' % name)
    return fn[0]


def char_const(e, what):
    if not (isinstance(e, ast.Constant) and isinstance(e.value, str) and len(e.value) == 1):
        raise Unsupported('%s: a one character string constant expected: %s' % (what, ast.dump(e)))
    return ord(e.value)


def diff_call(s, latest, previous):
    '''X = _diff(latest[i], previous[j]) -> (X, i, j)'''
    if not (isinstance(s, ast.Assign) and len(s.targets) == 1 and isinstance(s.targets[0], ast.Name)
            and isinstance(s.value, ast.Call) and is_name(s.value.func, '_diff')
            and len(s.value.args) == 2 and not s.value.keywords):
        raise Unsupported('expected  x = _diff(latest[i], previous[j]): ' + ast.unparse(s))
    a, b = s.value.args

    def idx(e, d, allowed):
        if not (isinstance(e, ast.Subscript) and is_name(e.value, d) and isinstance(e.slice, ast.Constant)
                and type(e.slice.value) is int and e.slice.value in allowed):
            raise Unsupported('index of %s: %s' % (d, ast.unparse(e)))
        return e.slice.value

    # previous[0] is the task dictionary (name -> True): not a version table
    return s.targets[0].id, idx(a, latest, (0, 1, 2)), idx(b, previous, (1, 2, 3))


def ans_comp(s, diffs):
    '''ans = {SEP.join(item.split(SEP2)[:N]) for item in d1 + d2 + d3}'''
    if not (isinstance(s, ast.Assign) and len(s.targets) == 1 and is_name(s.targets[0], 'ans')
            and isinstance(s.value, ast.SetComp) and len(s.value.generators) == 1):
        raise Unsupported('expected  ans = {... for item in ...}: ' + ast.unparse(s))
    g = s.value.generators[0]
    if g.ifs or g.is_async or not isinstance(g.target, ast.Name):
        raise Unsupported('comprehension header: ' + ast.unparse(s))
    item = g.target.id

    def summands(e):
        if isinstance(e, ast.BinOp) and isinstance(e.op, ast.Add):
            return summands(e.left) + summands(e.right)
        if isinstance(e, ast.Name) and e.id in diffs:
            return [e.id]
        raise Unsupported('comprehension source: ' + ast.unparse(e))

    src = summands(g.iter)
    e = s.value.elt
    if not (isinstance(e, ast.Call) and isinstance(e.func, ast.Attribute) and e.func.attr == 'join'
            and len(e.args) == 1 and not e.keywords):
        raise Unsupported('comprehension element: ' + ast.unparse(e))
    jc = char_const(e.func.value, 'join separator')
    sub = e.args[0]
    if not (isinstance(sub, ast.Subscript) and isinstance(sub.slice, ast.Slice)
            and sub.slice.lower is None and sub.slice.step is None
            and isinstance(sub.slice.upper, ast.Constant) and type(sub.slice.upper.value) is int
            and 0 <= sub.slice.upper.value <= 8):
        raise Unsupported('slice: ' + ast.unparse(sub))
    n = sub.slice.upper.value
    sp = sub.value
    if not (isinstance(sp, ast.Call) and isinstance(sp.func, ast.Attribute) and sp.func.attr == 'split'
            and is_name(sp.func.value, item) and len(sp.args) == 1 and not sp.keywords):
        raise Unsupported('split: ' + ast.unparse(sp))
    sc = char_const(sp.args[0], 'split separator')
    return src, jc, sc, n


def translate_build(tree):
    fn = find_fn(tree.body, 'build')
    args = [a.arg for a in fn.args.args]
    if len(args) != 3 or fn.args.vararg or fn.args.kwarg or fn.args.kwonlyargs or fn.args.defaults:
        raise Unsupported('build arity')
    _f, latest, previous = args
    body = strip(fn.body)
    ref = strip(ast.parse(PINNED_BUILD.replace('DIFF', 'DIFF_').replace('ANS', 'ANS_')).body)
    if len(body) != len(ref):
        raise Unsupported('build(): %d statements, %d expected' % (len(body), len(ref)))
    diffs, ans = {}, None
    for s, r in zip(body, ref):
        if isinstance(r, ast.Expr) and is_name(r.value, 'DIFF_'):
            x, i, j = diff_call(s, latest, previous)
            if x in diffs:
                raise Unsupported('difference %s assigned twice' % x)
            diffs[x] = (i, j)
        elif isinstance(r, ast.Expr) and is_name(r.value, 'ANS_'):
            ans = ans_comp(s, diffs)
        else:
            want = dump(r).replace("'latest'", repr(latest)).replace("'previous'", repr(previous))
            if dump(s) != want:
                raise Unsupported('build(): statement outside the pinned text: ' + ast.unparse(s)[:200])
    src, jc, sc, n = ans
    terms = ' ++ '.join('ndiff l%d p%d' % diffs[x] for x in src)
    return jc, sc, n, terms


def translate_locate(tree):
    cls = [n for n in tree.body if isinstance(n, ast.ClassDef) and n.name == 'Node']
    if len(cls) != 1:
        raise Unsupported('class Node not found')
    fn = find_fn(cls[0].body, 'locate')
    args = [a.arg for a in fn.args.args]
    if args != ['self', 'name'] or fn.args.defaults:
        raise Unsupported('locate arity')
    body = strip(fn.body)
    ref = strip(ast.parse(PINNED_LOCATE.replace('TEST', 'TEST_')).body)
    if len(body) != len(ref):
        raise Unsupported('locate(): statement count')
    first = body[0]
    if not (isinstance(first, ast.Assign) and isinstance(first.value, ast.IfExp)):
        raise Unsupported('locate(): first statement')
    t = first.value.test
    probe = ast.parse(ast.unparse(first)).body[0]
    probe.value.test = ast.Name('TEST_', ast.Load())
    if dump(probe) != dump(ref[0]):
        raise Unsupported('locate(): first statement: ' + ast.unparse(first))
    for s, r in zip(body[1:], ref[1:]):
        if dump(s) != dump(r):
            raise Unsupported('locate(): statement outside the pinned text: ' + ast.unparse(s)[:200])

    def is_tag(e):
        return isinstance(e, ast.Attribute) and is_name(e.value, 'self') and e.attr == 'tag'

    if isinstance(t, ast.Compare) and len(t.ops) == 1:
        l, op, r = t.left, t.ops[0], t.comparators[0]
        if isinstance(op, ast.Eq) and ((is_name(l, 'name') and is_tag(r)) or (is_tag(l) and is_name(r, 'name'))):
            return 'name_eqb name tag'
        if isinstance(op, ast.In) and is_name(l, 'name') and is_tag(r):
            return 'contains name tag'
    if (isinstance(t, ast.Call) and isinstance(t.func, ast.Attribute) and t.func.attr == 'startswith'
            and len(t.args) == 1 and not t.keywords):
        if is_tag(t.func.value) and is_name(t.args[0], 'name'):
            return 'prefixb name tag'
        if is_name(t.func.value, 'name') and is_tag(t.args[0]):
            return 'prefixb tag name'
    raise Unsupported('locate(): test ' + ast.unparse(t))


def diff_test_text():
    '''the test of _diff as diff2coq.py translates it, on name-keyed tables'''
    buf = io.StringIO()
    diff2coq.SRC = SCHED
    with contextlib.redirect_stdout(buf):
        diff2coq.main()
    m = re.search(r'Definition diff_test [^\n]*:=\n  (.*)\.\nDefinition diff ', buf.getvalue(), flags=re.S)
    if not m:
        raise Unsupported('diff2coq output shape')
    t = m.group(1)
    for a, b in (('has_key', 'nhas_key'), ('mem_nat', 'nmem'), ('count_nat', 'ncount'),
                 ('dget', 'ndget'), ('lget', 'nlget')):
        t = re.sub(r'\b%s\b' % a, b, t)
    return t


def main():
    ssrc = open(SCHED).read()
    stree = ast.parse(ssrc)
    dtree = ast.parse(open(DAG).read())
    t = diff_test_text()
    jc, sc, n, terms = translate_build(stree)
    match = translate_locate(dtree)
    seg = (ast.get_source_segment(ssrc, find_fn(stree.body, 'build'))
           + ast.get_source_segment(ssrc, find_fn(stree.body, '_diff')))
    print('''(* GENERATED from %s (_diff, build) and %s (Node.locate) -- do not edit.  sha256=%s *)
From Coq Require Import List Arith Bool.
From DV Require Import Model.Catalogue.
Import ListNotations.
Definition nmem (x : name) (l : list name) : bool := existsb (name_eqb x) l.
Definition ncount (x : name) (l : list name) : nat := length (filter (name_eqb x) l).
Definition nhas_key {V} (k : name) (d : list (name * V)) : bool := existsb (fun p => name_eqb (fst p) k) d.
Definition ndget (k : name) (d : list (name * name)) : name :=
  match find (fun p => name_eqb (fst p) k) d with Some p => snd p | None => [] end.
Definition nlget (k : name) (d : list (name * list name)) : list name :=
  match find (fun p => name_eqb (fst p) k) d with Some p => snd p | None => [] end.
(* _diff *)
Definition ndiff_test (curr : list (name * name)) (prev : list (name * list name)) (k : name) : bool :=
  %s.
Definition ndiff (curr : list (name * name)) (prev : list (name * list name)) : list name :=
  fold_left (fun acc kv => let k := fst kv in if ndiff_test curr prev k then acc ++ [k] else acc) curr [].
(* str.join on a one character separator *)
Definition join_chr (c : nat) (l : list name) : name :=
  match l with [] => [] | x :: r => x ++ flat_map (fun y => c :: y) r end.
(* the element of the set comprehension `ans` of build() *)
Definition alg_of (item : name) : name := join_chr %d (firstn %d (split_chr %d item [])).
(* build(): the names handed to locate() and organize(); l_i = latest[i], p_j = previous[j] *)
Definition changed_names (l0 l1 l2 : list (name * name)) (p1 p2 p3 : list (name * list name)) : list name :=
  map alg_of (%s).
(* dag.Node.locate: the test that selects a node by its tag *)
Definition tag_match (name tag : name) : bool := %s.'''
          % (SCHED, DAG, hashlib.sha256(seg.encode()).hexdigest()[:16], t, jc, n, sc, terms, match))


if __name__ == '__main__':
    try:
        main()
    except Unsupported as e:
        sys.stderr.write('buildnames2coq: unsupported source construct: %s\n' % e)
        sys.exit(2)
    except SystemExit:
        raise
    except (KeyError, IndexError, SyntaxError, AttributeError, TypeError) as e:
        sys.stderr.write('buildnames2coq: source shape changed: %r\n' % e)
        sys.exit(2)
