'''delay2coq.py -- fail-closed translation of dawgie/pl/schedule.py::_delay and
of the "due" test of defer() to Gallina (coq/Gen/DelayGen.v).

  _delay(when)                         -> delay  : list event -> event -> clock -> dres * list event
  defer(): ts = _delay(p).total_seconds(); if ts <= 300.0   -> due : Z (microseconds) -> bool

pyfrag.py supplies the conventions (python variable v = Gallina v_, Unsupported,
exit 2); the statement walker is specific because the exceptions of _delay are
named (res / dres of Model/Delay.v, not option) and the values are datetime
objects.  The datetime library is mapped EXPLICITLY to the calendar functions
of Model/Delay.v; any other call, attribute, operator or statement: exit 2.

  python                                         Gallina
  now = datetime.datetime.now(datetime.UTC)      the parameter now_ : clock (first statement only);
                                                 the value `now` is (now_inst now_)
  now.year / now.month / now.day                 n_y now_ / n_m now_ / n_d now_
  now.isoweekday()                               isoweekday now_  = weekday (ord ..) + 1
  when.moment.F is [not] None (F = boot, day,    match m_F (snd when_) with Some F_ => .. | None => ..
     dom, dow)                                   (inside the branch when.moment.F is F_)
  when.moment.day.year / .month / .day           fst (fst day_) / snd (fst day_) / snd day_
  datetime.datetime(year=Y, month=M, day=D,      mk_dt Y M D (m_time (snd when_)) : res instant
     hour=when.moment.time.hour,                 (AttributeError when time is None -- raised while the
     minute=when.moment.time.minute,              hour argument is evaluated, after Y M D which are pure --,
     second=when.moment.time.second,              ValueError for a date/time out of range)
     tzinfo=datetime.UTC)
  datetime.timedelta(days=E)                     td_days E : res Z     (OverflowError beyond +-999999999)
  <datetime> + <timedelta>                       dt_add_days : res instant (OverflowError outside date.min..max)
  <datetime> - <datetime>  (returned)            dt_sub = difference in microseconds (exact integers)
  (when.algref.factory, when.algref.impl.name(), (fst when_, snd when_): the event identity; the nat id of
     when.moment)                                 Model/Delay.v stands for the pair (factory, algorithm name)
  x in booted                                    existsb (event_eqb x) booted_   (tuple ==, MOMENT ==: fieldwise)
  booted.append(x)                               booted_ ++ [x]
  raise _DelayNotKnowableError()                 (NotKnowable, booted_)
  integers, + - on integers, == != < <= > >=,    Z
     a if c else b

  statements: x = e; `if t: .. else: ..` (the rest of the function is
  translated in both branches); `if t: raise _DelayNotKnowableError()`;
  `if t: <assignments>` without else = the rebinding of the variables bound
  before it, as a res value (an exception leaves the function); pass;
  return at the end.  Sub-expressions that can raise are evaluated left to
  right (python's order) and bound before use.
'''
import ast
import hashlib
import os
import sys

sys.path.insert(0, os.path.dirname(os.path.abspath(__file__)))
from pyfrag import Unsupported, mangle  # noqa: E402

REPO = os.environ.get('VERIF_REPO', '/repo')
SRC = os.path.join(REPO, 'Python/dawgie/pl/schedule.py')

PRELUDE = '''From Coq Require Import ZArith List Bool.
From DV Require Import Model.Delay.
Import ListNotations.
Local Open Scope Z_scope.

(* ---- the datetime operations _delay uses, on the calendar of Model/Delay.v ---- *)
(* now.isoweekday() *)
Definition isoweekday (c : clock) : Z := weekday (ord (n_y c) (n_m c) (n_d c)) + 1.
(* datetime.timedelta(days=n) *)
Definition td_days (n : Z) : res Z :=
  if (n <? - MAXTD) || (MAXTD <? n) then Fail OverflowError else Val n.
(* datetime + timedelta(days=dd) *)
Definition dt_add_days (b : instant) (dd : Z) : res instant :=
  let o := i_ord b + dd in
  if (1 <=? o) && (o <=? MAXORD) then Val (mkI o (i_sod b) (i_us b)) else Fail OverflowError.
(* (a - b) as microseconds *)
Definition dt_sub (a b : instant) : Z := inst_us a - inst_us b.
'''

MOMENT_OPT = {'boot': 'bool', 'day': 'z3', 'dom': 'Z', 'dow': 'Z'}
KNOWN_TUPLE = ['when.algref.factory', 'when.algref.impl.name()', 'when.moment']
DT_TIME_KW = {'hour': 'when.moment.time.hour', 'minute': 'when.moment.time.minute',
              'second': 'when.moment.time.second', 'tzinfo': 'datetime.UTC'}


def sha(src, fn):
    return hashlib.sha256(ast.get_source_segment(src, fn).encode()).hexdigest()[:16]


class DelayTr:
    def __init__(self):
        self.n = 0

    def fresh(self):
        self.n += 1
        return 't%d_' % self.n

    # ---- expressions: returns (binds, text, type); binds = [(var, res text)] ----
    def expr(self, e, env):
        txt = ast.unparse(e)
        if txt in env.get('#refined', {}):
            return [], env['#refined'][txt][0], env['#refined'][txt][1]
        if isinstance(e, ast.Constant) and type(e.value) is int:
            return [], ('%d' % e.value if e.value >= 0 else '(%d)' % e.value), 'Z'
        if isinstance(e, ast.Name):
            if e.id == 'now' and env.get('now') == 'clock':
                return [], '(now_inst now_)', 'dt'
            if e.id in env and e.id not in ('now', 'when'):
                return [], mangle(e.id), env[e.id]
            raise Unsupported('name %s' % e.id)
        if isinstance(e, ast.Attribute):
            if isinstance(e.value, ast.Name) and e.value.id == 'now' and env.get('now') == 'clock':
                f = {'year': 'n_y', 'month': 'n_m', 'day': 'n_d'}.get(e.attr)
                if f:
                    return [], '(%s now_)' % f, 'Z'
                raise Unsupported('attribute now.%s' % e.attr)
            b, t, ty = self.expr(e.value, env)
            if ty == 'z3' and not b:
                pr = {'year': '(fst (fst %s))', 'month': '(snd (fst %s))', 'day': '(snd %s)'}.get(e.attr)
                if pr:
                    return [], pr % t, 'Z'
            raise Unsupported('attribute %s' % txt)
        if isinstance(e, ast.Tuple):
            if [ast.unparse(x) for x in e.elts] == KNOWN_TUPLE and 'when' in env:
                return [], '(fst when_, snd when_)', 'event'
            raise Unsupported('tuple %s' % txt)
        if isinstance(e, ast.BinOp) and isinstance(e.op, (ast.Add, ast.Sub)):
            (lb, l, lt), (rb, r, rt) = self.expr(e.left, env), self.expr(e.right, env)
            if lt == rt == 'Z':
                return lb + rb, '(%s %s %s)' % (l, '+' if isinstance(e.op, ast.Add) else '-', r), 'Z'
            if isinstance(e.op, ast.Add) and lt == 'dt' and rt == 'td':
                v = self.fresh()
                return lb + rb + [(v, 'dt_add_days %s %s' % (l, r))], v, 'dt'
            if isinstance(e.op, ast.Sub) and lt == rt == 'dt':
                return lb + rb, '(dt_sub %s %s)' % (l, r), 'us'
            raise Unsupported('%s on %r and %r' % (type(e.op).__name__, lt, rt))
        if isinstance(e, ast.IfExp):
            (cb, c, ct) = self.expr(e.test, env)
            (ab, a, at), (bb, b, bt) = self.expr(e.body, env), self.expr(e.orelse, env)
            if ct != 'bool' or at != bt or at != 'Z' or cb or ab or bb:
                raise Unsupported('conditional expression %s' % txt)
            return [], '(if %s then %s else %s)' % (c, a, b), 'Z'
        if isinstance(e, ast.Compare) and len(e.ops) == 1:
            (lb, l, lt), (rb, r, rt) = self.expr(e.left, env), self.expr(e.comparators[0], env)
            op = e.ops[0]
            if lb or rb:
                raise Unsupported('raising operand of a comparison: ' + txt)
            if lt == rt == 'Z':
                t = {ast.Eq: '(%s =? %s)', ast.NotEq: '(negb (%s =? %s))', ast.Lt: '(%s <? %s)',
                     ast.LtE: '(%s <=? %s)', ast.Gt: '(%s >? %s)', ast.GtE: '(%s >=? %s)'}.get(type(op))
                if t:
                    return [], t % (l, r), 'bool'
            if isinstance(op, (ast.In, ast.NotIn)) and lt == 'event' and rt == 'events':
                t = '(existsb (event_eqb %s) %s)' % (l, r)
                return [], (t if isinstance(op, ast.In) else '(negb %s)' % t), 'bool'
            raise Unsupported('comparison %s' % txt)
        if isinstance(e, ast.Call):
            f = ast.unparse(e.func)
            if f == 'now.isoweekday' and not e.args and not e.keywords and env.get('now') == 'clock':
                return [], '(isoweekday now_)', 'Z'
            if f == 'datetime.datetime' and not e.args:
                kw = [(k.arg, k.value) for k in e.keywords]
                if [k for k, _ in kw] != ['year', 'month', 'day', 'hour', 'minute', 'second', 'tzinfo']:
                    raise Unsupported('datetime.datetime keywords: ' + txt)
                for k, v in kw[3:]:
                    if ast.unparse(v) != DT_TIME_KW[k]:
                        raise Unsupported('datetime.datetime(%s=%s)' % (k, ast.unparse(v)))
                if 'when' not in env:
                    raise Unsupported('when is not bound')
                binds, parts = [], []
                for k, v in kw[:3]:
                    b, t, ty = self.expr(v, env)
                    if ty != 'Z':
                        raise Unsupported('datetime.datetime(%s=<%r>)' % (k, ty))
                    binds += b
                    parts.append(t)
                v = self.fresh()
                return binds + [(v, 'mk_dt %s (m_time (snd when_))' % ' '.join(parts))], v, 'dt'
            if f == 'datetime.timedelta' and not e.args and [k.arg for k in e.keywords] == ['days']:
                b, t, ty = self.expr(e.keywords[0].value, env)
                if ty != 'Z':
                    raise Unsupported('timedelta(days=<%r>)' % (ty,))
                v = self.fresh()
                return b + [(v, 'td_days %s' % t)], v, 'td'
            raise Unsupported('call %s' % txt)
        raise Unsupported(ast.dump(e))

    # ---- tests ------------------------------------------------------------------
    def option_test(self, t):
        '''(field, is_some) for `when.moment.F is [not] None`'''
        if isinstance(t, ast.Compare) and len(t.ops) == 1 and isinstance(t.ops[0], (ast.Is, ast.IsNot)) \
                and isinstance(t.comparators[0], ast.Constant) and t.comparators[0].value is None:
            x = ast.unparse(t.left)
            if x.startswith('when.moment.') and x[12:] in MOMENT_OPT:
                return x[12:], isinstance(t.ops[0], ast.IsNot)
            raise Unsupported('is None of %s' % x)
        return None

    def cond(self, test, env, yes, no):
        '''yes/no : env -> text'''
        ot = self.option_test(test)
        if ot:
            f, is_some = ot
            if 'when' not in env:
                raise Unsupported('when is not bound')
            en = dict(env)
            en['#refined'] = dict(env.get('#refined', {}))
            en['#refined']['when.moment.' + f] = (mangle(f), MOMENT_OPT[f])
            some, none = (yes, no) if is_some else (no, yes)
            s_en, n_en = (en, env)
            return '(match m_%s (snd when_) with\n | Some %s => %s\n | None => %s\n end)' % (
                f, mangle(f), some(s_en), none(n_en))
        b, c, ty = self.expr(test, env)
        if b or ty != 'bool':
            raise Unsupported('test %s' % ast.unparse(test))
        return '(if %s then %s else %s)' % (c, yes(env), no(env))

    # ---- statements -----------------------------------------------------------------
    @staticmethod
    def strip(stmts):
        return [s for s in stmts if not isinstance(s, ast.Pass)
                and not (isinstance(s, ast.Expr) and isinstance(s.value, ast.Constant))]

    @staticmethod
    def assigned(stmts):
        out = []
        for s in stmts:
            if isinstance(s, ast.Assign):
                for t in s.targets:
                    if not isinstance(t, ast.Name):
                        raise Unsupported('assignment target ' + ast.unparse(t))
                    if t.id not in out:
                        out.append(t.id)
            elif isinstance(s, ast.If):
                for n in DelayTr.assigned(s.body) + DelayTr.assigned(s.orelse):
                    if n not in out:
                        out.append(n)
            elif isinstance(s, ast.Pass):
                pass
            else:
                raise Unsupported('statement inside a one-sided if: ' + ast.unparse(s).split('\n')[0])
        return out

    def fail(self, mode):
        return 'Fail e_' if mode == 'res' else '(Err e_, booted_)'

    def wrap(self, binds, mode, inner):
        for v, rt in reversed(binds):
            inner = 'match %s with\n | Fail e_ => %s\n | Val %s =>\n %s\n end' % (rt, self.fail(mode), v, inner)
        return inner

    def block(self, stmts, env, mode, tail):
        stmts = self.strip(stmts)
        if not stmts:
            return tail(env)
        s, rest = stmts[0], stmts[1:]
        if isinstance(s, ast.Assign):
            if len(s.targets) != 1 or not isinstance(s.targets[0], ast.Name):
                raise Unsupported('assignment ' + ast.unparse(s))
            x = s.targets[0].id
            if x in ('now', 'when', 'booted'):
                raise Unsupported('rebinding of %s' % x)
            b, t, ty = self.expr(s.value, env)
            if x in env and env[x] != ty:
                raise Unsupported('%s changes type from %r to %r' % (x, env[x], ty))
            en = dict(env)
            en[x] = ty
            if b and b[-1][0] == t:
                b = b[:-1] + [(mangle(x), b[-1][1])]
                return self.wrap(b, mode, self.block(rest, en, mode, tail))
            return self.wrap(b, mode, 'let %s := %s in\n %s' % (mangle(x), t, self.block(rest, en, mode, tail)))
        if isinstance(s, ast.Expr) and isinstance(s.value, ast.Call):
            c = s.value
            if mode == 'top' and ast.unparse(c.func) == 'booted.append' and len(c.args) == 1 and not c.keywords:
                b, t, ty = self.expr(c.args[0], env)
                if b or ty != 'event':
                    raise Unsupported('booted.append(<%r>)' % (ty,))
                return 'let booted_ := booted_ ++ [%s] in\n %s' % (t, self.block(rest, env, mode, tail))
            raise Unsupported('call statement ' + ast.unparse(s))
        if isinstance(s, ast.If):
            body, orelse = self.strip(s.body), self.strip(s.orelse)
            if not body:
                raise Unsupported('empty if')
            if len(body) == 1 and isinstance(body[0], ast.Raise):
                if mode != 'top' or orelse or ast.unparse(body[0]) != 'raise _DelayNotKnowableError()':
                    raise Unsupported('raise: ' + ast.unparse(s).split('\n')[0])
                return self.cond(s.test, env, lambda en: '(NotKnowable, booted_)',
                                 lambda en: self.block(rest, en, mode, tail))
            if orelse:
                if mode != 'top':
                    raise Unsupported('if/else inside a one-sided if')
                return self.cond(s.test, env, lambda en: self.block(body + rest, en, mode, tail),
                                 lambda en: self.block(orelse + rest, en, mode, tail))
            outs = [n for n in self.assigned(body) if n in env]
            if not outs:
                raise Unsupported('if without effect: ' + ast.unparse(s.test))
            pat = mangle(outs[0]) if len(outs) == 1 else '(' + ', '.join(mangle(n) for n in outs) + ')'

            def inner_tail(en):
                for n in outs:
                    if en[n] != env[n]:
                        raise Unsupported('%s changes type in an if' % n)
                return 'Val %s' % pat
            joined = self.cond(s.test, env, lambda en: self.block(body, en, 'res', inner_tail),
                               lambda en: 'Val %s' % pat)
            return 'match %s with\n | Fail e_ => %s\n | Val %s =>\n %s\n end' % (
                joined, self.fail(mode), pat, self.block(rest, env, mode, tail))
        if isinstance(s, ast.Return):
            if rest or mode != 'top':
                raise Unsupported('return before the end')
            return tail(dict(env, **{'#return': s.value}))
        raise Unsupported('statement ' + ast.unparse(s).split('\n')[0])

    # ---- _delay -------------------------------------------------------------------------
    def delay(self, fn):
        a = fn.args
        if [x.arg for x in a.args] != ['when'] or a.vararg or a.kwarg or a.kwonlyargs or a.posonlyargs:
            raise Unsupported('_delay signature')
        body = self.strip(fn.body)
        if not body or ast.unparse(body[0]) != 'now = datetime.datetime.now(datetime.UTC)':
            raise Unsupported('_delay must start by reading the clock once')
        for n in ast.walk(ast.Module(body=body[1:], type_ignores=[])):
            if isinstance(n, ast.Attribute) and ast.unparse(n).endswith('.now'):
                raise Unsupported('second reading of the clock')
            if isinstance(n, (ast.Global, ast.Nonlocal, ast.While, ast.For, ast.Try, ast.With)):
                raise Unsupported(type(n).__name__)
        env = {'now': 'clock', 'when': 'event', 'booted': 'events'}

        def tail(en):
            rv = en.get('#return')
            if rv is None:
                raise Unsupported('_delay falls off the end')
            if not (isinstance(rv, ast.BinOp) and isinstance(rv.op, ast.Sub)):
                raise Unsupported('return ' + ast.unparse(rv))
            b, t, ty = self.expr(rv, en)
            lb, l, lt = self.expr(rv.left, en)
            if b or ty != 'us':
                raise Unsupported('return ' + ast.unparse(rv))
            return '(Ok %s %s, booted_)' % (l, t)
        text = self.block(body[1:], env, 'top', tail)
        return ('Definition delay (booted_ : list event) (when_ : event) (now_ : clock)\n'
                '  : dres * list event :=\n %s.' % text)


def due(fn):
    '''defer(): `ts = _delay(p).total_seconds()` followed by `if ts <= C:` ->
    due d_us := d_us <=? C * US  (total_seconds() is the exact quotient by 10^6
    correctly rounded: monotone, and exact at C * 10^6, so the float test and
    the integer test agree for an integral C)'''
    hits = []
    for n in ast.walk(fn):
        if isinstance(n, ast.Try) or isinstance(n, ast.For):
            body = n.body
            for i, s in enumerate(body[:-1]):
                if isinstance(s, ast.Assign) and ast.unparse(s) == 'ts = _delay(p).total_seconds()' \
                        and isinstance(body[i + 1], ast.If):
                    hits.append(body[i + 1])
    uses = [n for n in ast.walk(fn) if isinstance(n, ast.Name) and n.id == 'ts' and isinstance(n.ctx, ast.Load)]
    if len(hits) != 1:
        raise Unsupported('defer: the statement pair `ts = _delay(p).total_seconds()` / `if ts ..` occurs %d times' % len(hits))
    t = hits[0].test
    if not (isinstance(t, ast.Compare) and len(t.ops) == 1 and ast.unparse(t.left) == 'ts'
            and isinstance(t.comparators[0], ast.Constant) and type(t.comparators[0].value) in (int, float)):
        raise Unsupported('defer: due test ' + ast.unparse(t))
    c = t.comparators[0].value
    if c != int(c) or not 0 <= c < 10 ** 9:
        raise Unsupported('defer: window %r is not a whole number of seconds' % (c,))
    op = {ast.LtE: '<=?', ast.Lt: '<?'}.get(type(t.ops[0]))
    if not op:
        raise Unsupported('defer: due test operator ' + ast.unparse(t))
    # the else branch must be the one that keeps the delay for the timer
    if [ast.unparse(x) for x in DelayTr.strip(hits[0].orelse)] != ['delay.append(ts)']:
        raise Unsupported('defer: the not-due branch is not `delay.append(ts)`')
    if len(uses) != 2:
        raise Unsupported('defer: ts is used %d times' % len(uses))
    return 'Definition due (d_us : Z) : bool := d_us %s %d * US.' % (op, int(c))


def main():
    src = open(SRC).read()
    tree = ast.parse(src)
    fns = {n.name: n for n in tree.body if isinstance(n, ast.FunctionDef)}
    out = ['(* GENERATED by tools/translate/delay2coq.py from dawgie/pl/schedule.py -- do not edit.',
           '   _delay sha256/16 %s, defer sha256/16 %s *)' % (sha(src, fns['_delay']), sha(src, fns['defer'])),
           PRELUDE,
           '(* def _delay(when) *)', DelayTr().delay(fns['_delay']), '',
           '(* defer(): ts = _delay(p).total_seconds(); if ts <= 300.0 *)', due(fns['defer']), '']
    sys.stdout.write('\n'.join(out))


if __name__ == '__main__':
    try:
        main()
    except Unsupported as e:
        sys.stderr.write('delay2coq: unsupported source construct: %s\n' % e)
        sys.exit(2)
    except (KeyError, IndexError, SyntaxError, AttributeError, TypeError) as e:
        sys.stderr.write('delay2coq: source shape changed: %r\n' % e)
        sys.exit(2)
