'''diff2coq.py -- fail-closed translation of dawgie.pl.schedule._diff to Gallina
(coq/Gen/DiffGen.v).

Accepted shape (anything else: exit 2):

    def _diff(curr, prev):
        diff = []
        for k in curr:
            if <test>:
                diff.append(k)
            pass
        return diff

with <test> built from: `or` / `and` / `not`, `k in prev`, `k not in prev`,
`prev[k].count(curr[k]) == 0` (also `!= 0`, `> 0`), `curr[k] in prev[k]`,
`curr[k] not in prev[k]`.  Dictionaries become association lists
(curr : list (nat * nat), prev : list (nat * list nat)); names and version
strings are nat ids kept by the harness.'''
import ast
import hashlib
import os
import sys

SRC = os.path.join(os.environ.get('VERIF_REPO', '/repo'), 'Python/dawgie/pl/schedule.py')


class Unsupported(Exception):
    pass


def is_name(e, n):
    return isinstance(e, ast.Name) and e.id == n


def sub(e, d, k):
    return isinstance(e, ast.Subscript) and is_name(e.value, d) and is_name(e.slice, k)


def test(e, C, P, K):
    if isinstance(e, ast.BoolOp):
        op = ' || ' if isinstance(e.op, ast.Or) else ' && '
        return '(' + op.join(test(v, C, P, K) for v in e.values) + ')'
    if isinstance(e, ast.UnaryOp) and isinstance(e.op, ast.Not):
        return '(negb %s)' % test(e.operand, C, P, K)
    if isinstance(e, ast.Compare) and len(e.ops) == 1:
        l, op, r = e.left, e.ops[0], e.comparators[0]
        if is_name(l, K) and is_name(r, P) and isinstance(op, (ast.In, ast.NotIn)):
            t = '(has_key k prev)'
            return t if isinstance(op, ast.In) else '(negb %s)' % t
        if sub(l, C, K) and sub(r, P, K) and isinstance(op, (ast.In, ast.NotIn)):
            t = '(mem_nat (dget k curr) (lget k prev))'
            return t if isinstance(op, ast.In) else '(negb %s)' % t
        if (isinstance(l, ast.Call) and isinstance(l.func, ast.Attribute) and l.func.attr == 'count'
                and sub(l.func.value, P, K) and len(l.args) == 1 and sub(l.args[0], C, K)
                and isinstance(r, ast.Constant) and type(r.value) is int):
            cnt = '(count_nat (dget k curr) (lget k prev))'
            ops = {ast.Eq: '(Nat.eqb %s %d)', ast.NotEq: '(negb (Nat.eqb %s %d))',
                   ast.Gt: '(Nat.ltb %d %s)', ast.Lt: '(Nat.ltb %s %d)'}
            if type(op) in ops:
                if isinstance(op, ast.Gt):
                    return ops[type(op)] % (r.value, cnt)
                return ops[type(op)] % (cnt, r.value)
    raise Unsupported(ast.dump(e))


def main():
    src = open(SRC).read()
    tree = ast.parse(src)
    fn = [n for n in tree.body if isinstance(n, ast.FunctionDef) and n.name == '_diff']
    if len(fn) != 1:
        raise Unsupported('_diff not found')
    fn = fn[0]
    args = [a.arg for a in fn.args.args]
    if len(args) != 2:
        raise Unsupported('arity')
    C, P = args
    body = [s for s in fn.body if not isinstance(s, ast.Pass)
            and not (isinstance(s, ast.Expr) and isinstance(s.value, ast.Constant))]
    if len(body) != 3:
        raise Unsupported('body shape')
    init, loop, ret = body
    if not (isinstance(init, ast.Assign) and len(init.targets) == 1 and isinstance(init.targets[0], ast.Name)
            and isinstance(init.value, ast.List) and not init.value.elts):
        raise Unsupported('accumulator init')
    acc = init.targets[0].id
    if not (isinstance(ret, ast.Return) and is_name(ret.value, acc)):
        raise Unsupported('return')
    if not (isinstance(loop, ast.For) and isinstance(loop.target, ast.Name) and is_name(loop.iter, C)
            and not loop.orelse):
        raise Unsupported('loop header')
    K = loop.target.id
    lb = [s for s in loop.body if not isinstance(s, ast.Pass)]
    if len(lb) != 1 or not isinstance(lb[0], ast.If) or lb[0].orelse:
        raise Unsupported('loop body')
    ib = [s for s in lb[0].body if not isinstance(s, ast.Pass)]
    if not (len(ib) == 1 and isinstance(ib[0], ast.Expr) and isinstance(ib[0].value, ast.Call)
            and isinstance(ib[0].value.func, ast.Attribute) and ib[0].value.func.attr == 'append'
            and is_name(ib[0].value.func.value, acc) and len(ib[0].value.args) == 1
            and is_name(ib[0].value.args[0], K)):
        raise Unsupported('append')
    t = test(lb[0].test, C, P, K)
    seg = ast.get_source_segment(src, fn)
    print('''(* GENERATED from %s (_diff) -- do not edit.  sha256=%s *)
From Coq Require Import List Arith Bool.
Import ListNotations.
Definition mem_nat (x : nat) (l : list nat) : bool := existsb (Nat.eqb x) l.
Definition count_nat (x : nat) (l : list nat) : nat := length (filter (Nat.eqb x) l).
Definition has_key {V} (k : nat) (d : list (nat * V)) : bool := existsb (fun p => Nat.eqb (fst p) k) d.
Definition dget (k : nat) (d : list (nat * nat)) : nat :=
  match find (fun p => Nat.eqb (fst p) k) d with Some p => snd p | None => 0 end.
Definition lget (k : nat) (d : list (nat * list nat)) : list nat :=
  match find (fun p => Nat.eqb (fst p) k) d with Some p => snd p | None => [] end.
Definition diff_test (curr : list (nat * nat)) (prev : list (nat * list nat)) (k : nat) : bool :=
  %s.
Definition diff (curr : list (nat * nat)) (prev : list (nat * list nat)) : list nat :=
  fold_left (fun acc kv => let k := fst kv in if diff_test curr prev k then acc ++ [k] else acc) curr [].'''
          % (SRC, hashlib.sha256(seg.encode()).hexdigest()[:16], t))


if __name__ == '__main__':
    try:
        main()
    except Unsupported as e:
        sys.stderr.write('diff2coq: unsupported source construct: %s\n' % e)
        sys.exit(2)
    except (KeyError, IndexError, SyntaxError, AttributeError) as e:
        sys.stderr.write('diff2coq: source shape changed: %r\n' % e)
        sys.exit(2)
