'''dot2coq.py table|sites -- fail-closed generation of

  table : coq/Gen/FsmTable.v     from  Python/dawgie/pl/state.dot  (+ FSM.states,
          the default initial state and the callback names of pl/state.py)
  sites : coq/Gen/TriggerSites.v from every `*_trigger(` call and every call of
          a method of `dawgie.context.fsm` under Python/ (the environment of
          the state machine), each with its file and enclosing function.

Own tokenizer for the dot file, cross-checked against pydot (the parser the
FSM itself uses, including FSM.construct_attributes).  Anything outside the
expected shape raises Unsupported (exit 2): the check then takes the
"correspondence broken" path.'''
import ast
import hashlib
import os
import re
import sys

REPO = os.environ.get('VERIF_REPO', '/repo')
PYROOT = os.path.join(REPO, 'Python')
DOT = os.path.join(PYROOT, 'dawgie/pl/state.dot')
STATE_PY = os.path.join(PYROOT, 'dawgie/pl/state.py')

# callbacks the hand-written model (coq/Model/Fsm.v) knows how to interpret
KNOWN_CALLBACKS = ['start', 'load', 'navel_gaze', 'save_prior_state',
                   'archive', 'reload', 'reset']
EDGE_KEYS = {'label', 'trigger', 'source', 'dest', 'before', 'after'}
IDENT = re.compile(r'^[A-Za-z_][A-Za-z_0-9]*$')


class Unsupported(Exception):
    pass


# ---------------------------------------------------------------------------
# dot tokenizer / parser (the subset state.dot uses)
# ---------------------------------------------------------------------------

TOK = re.compile(r'\s*(?:(->)|([A-Za-z_][A-Za-z_0-9]*)|("(?:[^"\\]|\\.)*")|([\[\]{};,=]))')


def tokens(text):
    text = re.sub(r'/\*.*?\*/', ' ', text, flags=re.S)
    text = re.sub(r'//[^\n]*', ' ', text)
    pos, out = 0, []
    while True:
        while pos < len(text) and text[pos].isspace():
            pos += 1
        if pos >= len(text):
            return out
        m = TOK.match(text, pos)
        if not m:
            raise Unsupported('dot: cannot tokenise at %r' % text[pos:pos + 30])
        pos = m.end()
        if m.group(1):
            out.append(('arrow', '->'))
        elif m.group(2):
            out.append(('id', m.group(2)))
        elif m.group(3):
            out.append(('str', m.group(3)[1:-1]))
        else:
            out.append(('p', m.group(4)))


def attrs(t, i):
    '''[k=v, k=v ...] -> dict, next index'''
    assert t[i] == ('p', '[')
    i += 1
    d = {}
    while t[i] != ('p', ']'):
        if t[i][0] != 'id':
            raise Unsupported('dot: attribute name expected, got %r' % (t[i],))
        k = t[i][1]
        if t[i + 1] != ('p', '='):
            raise Unsupported('dot: = expected after %s' % k)
        if t[i + 2][0] not in ('id', 'str'):
            raise Unsupported('dot: value expected for %s' % k)
        if k in d:
            raise Unsupported('dot: attribute %s given twice' % k)
        d[k] = t[i + 2]
        i += 3
        if t[i] in (('p', ','), ('p', ';')):
            i += 1
    return d, i + 1


def parse_dot(text):
    t = tokens(text)
    if [x[1] for x in t[:3]] != ['digraph', 'dawgie_fsm', '{'] or t[-1] != ('p', '}'):
        raise Unsupported('dot: expected "digraph dawgie_fsm { ... }"')
    t = t[3:-1]
    i, nodes, edges = 0, [], []
    while i < len(t):
        k, v = t[i]
        if (k, v) == ('p', ';'):
            i += 1
        elif (k, v) == ('p', '{'):                       # { rank=same a b c }
            j = t.index(('p', '}'), i)
            body = t[i + 1:j]
            if not body or body[0] != ('id', 'rank'):
                raise Unsupported('dot: unexpected subgraph')
            i = j + 1
        elif k == 'id' and i + 1 < len(t) and t[i + 1] == ('arrow', '->'):
            if t[i + 2][0] != 'id' or t[i + 3] != ('p', '['):
                raise Unsupported('dot: edge without attribute list at %s' % v)
            d, j = attrs(t, i + 3)
            edges.append((v, t[i + 2][1], d))
            i = j
        elif k == 'id' and i + 1 < len(t) and t[i + 1] == ('p', '='):   # rankdir=TB
            if v not in ('rankdir',):
                raise Unsupported('dot: unexpected graph attribute %s' % v)
            i += 3
        elif k == 'id' and i + 1 < len(t) and t[i + 1] == ('p', '['):
            d, j = attrs(t, i + 1)
            if v not in ('node', 'edge', 'graph'):
                nodes.append((v, d))
            elif v != 'node' or set(d) - {'shape'}:
                raise Unsupported('dot: unexpected default attributes for %s' % v)
            i = j
        else:
            raise Unsupported('dot: unexpected token %r' % (t[i],))
    return nodes, edges


def load_table():
    text = open(DOT).read()
    nodes, raw = parse_dot(text)
    names = [n for n, _ in nodes]
    edges = []
    for a, b, d in raw:
        extra = set(d) - EDGE_KEYS
        if extra:
            # e.g. conditions= / unless= / prepare= : the model does not
            # interpret them
            raise Unsupported('dot: edge %s->%s has attributes outside the model: %s'
                              % (a, b, sorted(extra)))
        for k in ('trigger', 'source', 'dest'):
            if k not in d or d[k][0] != 'id':
                raise Unsupported('dot: edge %s->%s needs a plain %s=' % (a, b, k))
        if d['source'][1] != a or d['dest'][1] != b:
            raise Unsupported('dot: edge %s->%s drawn differently from source=%s dest=%s'
                              % (a, b, d['source'][1], d['dest'][1]))
        trig = d['trigger'][1]
        if not trig.endswith('_trigger'):
            raise Unsupported('dot: trigger name %s' % trig)
        e = {'trigger': trig, 'source': a, 'dest': b, 'before': [], 'after': []}
        for k in ('before', 'after'):
            if k in d:
                if d[k][0] != 'id':
                    raise Unsupported('dot: %s of %s->%s is not a plain name' % (k, a, b))
                e[k] = [d[k][1]]
        edges.append(e)
    for e in edges:
        for s in (e['source'], e['dest']):
            if s not in names:
                raise Unsupported('dot: edge uses undeclared node %s' % s)
    return text, names, edges


def crosscheck_pydot(edges):
    '''the FSM reads the file through pydot + construct_attributes; both
    readings must agree edge by edge, in order.'''
    import pydot

    g = pydot.graph_from_dot_file(DOT)[0]
    got = []
    for e in g.get_edges():
        d = dict(e.get_attributes())
        d.pop('label', None)
        got.append((e.get_source(), e.get_destination(),
                    {k: str(v).strip('"') for k, v in d.items()}))
    mine = []
    for e in edges:
        d = {'trigger': e['trigger'], 'source': e['source'], 'dest': e['dest']}
        for k in ('before', 'after'):
            if e[k]:
                d[k] = e[k][0]
        mine.append((e['source'], e['dest'], d))
    if got != mine:
        raise Unsupported('dot: own parser and pydot disagree:\n%r\n%r' % (mine, got))


def state_py_facts():
    tree = ast.parse(open(STATE_PY).read())
    fsm = [n for n in tree.body if isinstance(n, ast.ClassDef) and n.name == 'FSM']
    if len(fsm) != 1:
        raise Unsupported('state.py: class FSM not found')
    fsm = fsm[0]
    states = None
    methods = {}
    for n in fsm.body:
        if isinstance(n, ast.Assign) and len(n.targets) == 1 and \
                isinstance(n.targets[0], ast.Name) and n.targets[0].id == 'states':
            states = ast.literal_eval(n.value)
        if isinstance(n, ast.FunctionDef):
            methods[n.name] = n
    if not isinstance(states, list) or not all(isinstance(s, str) for s in states):
        raise Unsupported('state.py: FSM.states is not a list of strings')
    init = methods.get('__init__')
    if init is None:
        raise Unsupported('state.py: FSM.__init__ missing')
    names = [a.arg for a in init.args.args]
    if 'initial_state' not in names:
        raise Unsupported('state.py: FSM.__init__ has no initial_state')
    dflt = init.args.defaults[names.index('initial_state') - (len(names) - len(init.args.defaults))]
    initial = ast.literal_eval(dflt)
    # Machine(...) must be created without options that change the semantics
    for n in ast.walk(init):
        if isinstance(n, ast.Call) and isinstance(n.func, ast.Attribute) and n.func.attr == 'Machine':
            kw = sorted(k.arg for k in n.keywords)
            if kw != ['initial', 'model', 'states'] or n.args:
                raise Unsupported('state.py: transitions.Machine(%s) — options outside the model' % kw)
    return states, initial, methods


def cname(prefix, s):
    if not IDENT.match(s):
        raise Unsupported('name %r is not an identifier' % s)
    return prefix + s


def gen_table():
    text, nodes, edges = load_table()
    crosscheck_pydot(edges)
    states, initial, methods = state_py_facts()
    if sorted(states) != sorted(nodes):
        raise Unsupported('FSM.states %s differs from the nodes of state.dot %s'
                          % (sorted(states), sorted(nodes)))
    if initial not in states:
        raise Unsupported('initial state %s is not a state' % initial)
    states = sorted(states)
    triggers = sorted({e['trigger'] for e in edges})
    for e in edges:
        for cb in e['before'] + e['after']:
            if cb in triggers:
                continue
            if cb not in KNOWN_CALLBACKS:
                raise Unsupported('callback %s of edge %s->%s is not modelled'
                                  % (cb, e['source'], e['dest']))
            if cb not in methods:
                raise Unsupported('callback %s is not a method of FSM' % cb)
    # transitions adds trigger methods to the model; a method of the same
    # name on FSM would shadow it
    for t in triggers:
        if t in methods:
            raise Unsupported('FSM defines a method named like trigger %s' % t)

    def S(s):
        return cname('S_', s)

    def T(t):
        return cname('T_', t[:-len('_trigger')])

    def CB(c):
        return '(Cb_fire %s)' % T(c) if c in triggers else cname('Cb_', c)

    o = []
    o.append('(* GENERATED by tools/translate/dot2coq.py table from')
    o.append('   Python/dawgie/pl/state.dot sha256=%s' % hashlib.sha256(text.encode()).hexdigest()[:16])
    o.append('   and FSM.states / FSM.__init__ of Python/dawgie/pl/state.py -- do not edit *)')
    o.append('From Coq Require Import List String Arith.')
    o.append('Import ListNotations.')
    o.append('Open Scope string_scope.')
    o.append('')
    o.append('Inductive state : Set := ' + ' | '.join(S(s) for s in states) + '.')
    o.append('Inductive trigger : Set := ' + ' | '.join(T(t) for t in triggers) + '.')
    o.append('Inductive callback : Set := '
             + ' | '.join(cname('Cb_', c) for c in KNOWN_CALLBACKS)
             + ' | Cb_fire (t : trigger).')
    o.append('')
    o.append('Definition all_states : list state := [' + '; '.join(S(s) for s in states) + '].')
    o.append('Definition all_triggers : list trigger := [' + '; '.join(T(t) for t in triggers) + '].')
    o.append('Definition state_idx (s : state) : nat := match s with '
             + ' '.join('| %s => %d' % (S(s), i) for i, s in enumerate(states)) + ' end.')
    o.append('Definition trigger_idx (t : trigger) : nat := match t with '
             + ' '.join('| %s => %d' % (T(t), i) for i, t in enumerate(triggers)) + ' end.')
    o.append('Definition state_eqb (a b : state) : bool := Nat.eqb (state_idx a) (state_idx b).')
    o.append('Definition trigger_eqb (a b : trigger) : bool := Nat.eqb (trigger_idx a) (trigger_idx b).')
    o.append('Definition state_name (s : state) : string := match s with '
             + ' '.join('| %s => "%s"' % (S(s), s) for s in states) + ' end.')
    o.append('Definition trigger_name (t : trigger) : string := match t with '
             + ' '.join('| %s => "%s"' % (T(t), t) for t in triggers) + ' end.')
    o.append('(* getattr(self, <state name> + "_trigger") : the trigger named after a state *)')
    o.append('Definition state_trigger (s : state) : option trigger := match s with '
             + ' '.join('| %s => %s' % (S(s), ('Some ' + T(s + '_trigger')) if s + '_trigger' in triggers else 'None')
                        for s in states) + ' end.')
    o.append('')
    o.append('Record edge : Set := mkEdge { e_trig : trigger; e_src : state; e_dst : state;')
    o.append('                             e_before : list callback; e_after : list callback }.')
    o.append('(* in file order = the order transitions.Machine tries them *)')
    o.append('Definition edges : list edge := [')
    rows = []
    for e in edges:
        rows.append('  mkEdge %s %s %s [%s] [%s]' % (
            T(e['trigger']), S(e['source']), S(e['dest']),
            '; '.join(CB(c) for c in e['before']), '; '.join(CB(c) for c in e['after'])))
    o.append(';\n'.join(rows))
    o.append('].')
    o.append('Definition initial_state : state := %s.' % S(initial))
    print('\n'.join(o))


# ---------------------------------------------------------------------------
# trigger call sites
# ---------------------------------------------------------------------------

FSM_METHODS_OF_INTEREST = None  # every method call on dawgie.context.fsm is recorded


def dotted(n):
    parts = []
    while isinstance(n, ast.Attribute):
        parts.append(n.attr)
        n = n.value
    if isinstance(n, ast.Name):
        parts.append(n.id)
        return '.'.join(reversed(parts))
    return None


def gen_sites():
    _text, _nodes, edges = load_table()
    triggers = sorted({e['trigger'] for e in edges})
    sites = []

    def visit(node, qual, rel, parents):
        for child in ast.iter_child_nodes(node):
            q = qual
            if isinstance(child, (ast.FunctionDef, ast.AsyncFunctionDef, ast.ClassDef)):
                q = (qual + '.' if qual else '') + child.name
            if isinstance(child, ast.Call):
                f = child.func
                if isinstance(f, ast.Attribute) and f.attr.endswith('_trigger'):
                    if f.attr not in triggers:
                        raise Unsupported('%s: call of unknown trigger %s' % (rel, f.attr))
                    sites.append((rel, qual or '<module>', 'fire', f.attr))
                elif isinstance(f, ast.Attribute) and dotted(f.value) == 'dawgie.context.fsm':
                    sites.append((rel, qual or '<module>', 'method', f.attr))
                elif isinstance(f, ast.Name) and f.id == 'getattr':
                    # getattr(self, self.__prior + '_trigger')
                    a = child.args
                    dyn = (len(a) == 2 and isinstance(a[1], ast.BinOp)
                           and isinstance(a[1].op, ast.Add)
                           and isinstance(a[1].right, ast.Constant)
                           and a[1].right.value == '_trigger')
                    if dyn:
                        left = dotted(a[1].left)
                        if left is None or not left.endswith('prior'):
                            raise Unsupported('%s: dynamic trigger on %r' % (rel, left))
                        sites.append((rel, qual or '<module>', 'prior', ''))
            elif isinstance(child, ast.Attribute) and child.attr.endswith('_trigger') \
                    and not (isinstance(node, ast.Call) and node.func is child):
                raise Unsupported('%s: %s referenced without being called (%s)'
                                  % (rel, child.attr, qual))
            elif isinstance(child, ast.Constant) and isinstance(child.value, str) \
                    and child.value.endswith('_trigger') and len(child.value) < 40 \
                    and '\n' not in child.value:
                ok = (isinstance(node, ast.BinOp) and child.value == '_trigger')
                if not ok:
                    raise Unsupported('%s: string %r may name a trigger dynamically (%s)'
                                      % (rel, child.value, qual))
            visit(child, q, rel, parents + [node])

    for root, dirs, files in os.walk(PYROOT):
        dirs.sort()
        for fn in sorted(files):
            if not fn.endswith('.py'):
                continue
            path = os.path.join(root, fn)
            rel = os.path.relpath(path, PYROOT)
            try:
                tree = ast.parse(open(path).read())
            except SyntaxError as e:
                raise Unsupported('%s: %s' % (rel, e))
            visit(tree, '', rel, [])
    sites = sorted(set(sites))

    def T(t):
        return cname('T_', t[:-len('_trigger')])

    o = []
    o.append('(* GENERATED by tools/translate/dot2coq.py sites: every `*_trigger(` call and every')
    o.append('   call of a method of dawgie.context.fsm under Python/ -- do not edit *)')
    o.append('From Coq Require Import List String.')
    o.append('From DV Require Import Gen.FsmTable.')
    o.append('Import ListNotations.')
    o.append('Open Scope string_scope.')
    o.append('Inductive site_kind : Set := SFire (t : trigger) | SPrior | SMethod (name : string).')
    o.append('(* file (relative to Python/), enclosing function, what is called *)')
    o.append('Definition trigger_sites : list (string * string * site_kind) := [')
    rows = []
    for rel, q, kind, what in sites:
        k = {'fire': lambda: 'SFire %s' % T(what), 'prior': lambda: 'SPrior',
             'method': lambda: 'SMethod "%s"' % what}[kind]()
        rows.append('  ("%s", "%s", %s)' % (rel, q, k))
    o.append(';\n'.join(rows))
    o.append('].')
    print('\n'.join(o))


if __name__ == '__main__':
    try:
        mode = sys.argv[1] if len(sys.argv) > 1 else 'table'
        if mode == 'table':
            gen_table()
        elif mode == 'sites':
            gen_sites()
        else:
            raise Unsupported('mode %r' % mode)
    except Unsupported as e:
        sys.stderr.write('dot2coq: unsupported: %s\n' % e)
        sys.exit(2)
    except OSError as e:
        sys.stderr.write('dot2coq: %s\n' % e)
        sys.exit(2)
