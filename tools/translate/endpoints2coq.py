'''endpoints2coq.py -- fail-closed translation of the access-control tables of
the DAWGIE front end to Gallina (coq/Gen/AccessTable.v).

Reads, from $VERIF_REPO/Python/dawgie:
  fe/basis.py        class HttpMethod(enum.Enum)        -> Inductive method
  security.py        def is_sanctioned(endpoint, cert)  -> all_access (the list
                     literal) and the decision function is_sanctioned
  fe/api/__init__.py every DynamicContent(handler, uri[, methods]) registration
  fe/app.py          (module level only)                -> registered

Subset of is_sanctioned: `if`, `return <bool constant>`, `all_access = [str,
...]`, tests built from `clients()`, `cert is None`, `cert is not None`,
`endpoint in all_access`, `endpoint not in all_access`, and/or/not.
Handlers must be: a module-level `def` of the same file, a module-level
`NAME = mod.Defer()` instance, or `mod.attr` of a sibling module imported with
`from . import mod`.  Every other `.py` under Python/dawgie is scanned for
calls of DynamicContent: one found outside the two files -> exit 2.
Anything outside the subset -> exit 2 (the check takes the "correspondence
broken" path).'''
import ast
import hashlib
import os
import sys

REPO = os.environ.get('VERIF_REPO', '/repo')
PKG = os.path.join(REPO, 'Python', 'dawgie')
REG_FILES = [('api', 'fe/api/__init__.py'), ('app', 'fe/app.py')]

# names whose use inside a handler body marks it as a command (it changes the
# pipeline: schedules, resets, snapshots, submits).  Attribute chains are
# compared by suffix.
EFFECTS = {
    'organize': 'schedule.organize',
    'wait_for_nothing': 'fsm.wait_for_nothing',
    'ARCHIVE': 'farm.ARCHIVE',
    'grab': 'snapshot.grab',
    'set_submit_info': 'fsm.set_submit_info',
    'submit_crossroads': 'fsm.submit_crossroads',
    'update_trigger': 'fsm.update_trigger',
    'purge': 'schedule.purge',
    'remove': 'db.remove',
    'reset': 'db.reset',
    'archive': 'db.archive',
    'pause': 'schedule.pause',
    'unpause': 'schedule.unpause',
}


class Unsupported(Exception):
    pass


def qstr(s):
    if not isinstance(s, str) or any(ord(c) < 32 or ord(c) > 126 for c in s):
        raise Unsupported('non printable-ascii string %r' % (s,))
    return '"%s"' % s.replace('"', '""')


# --------------------------------------------------------------------------
# HttpMethod
# --------------------------------------------------------------------------
def http_methods():
    src = open(os.path.join(PKG, 'fe/basis.py')).read()
    tree = ast.parse(src)
    cls = [n for n in tree.body
           if isinstance(n, ast.ClassDef) and n.name == 'HttpMethod']
    if len(cls) != 1:
        raise Unsupported('class HttpMethod not found exactly once')
    names = []
    for s in cls[0].body:
        if (isinstance(s, ast.Assign) and len(s.targets) == 1
                and isinstance(s.targets[0], ast.Name)
                and isinstance(s.value, ast.Constant)):
            names.append(s.targets[0].id)
        elif isinstance(s, ast.Pass) or (
                isinstance(s, ast.Expr) and isinstance(s.value, ast.Constant)):
            continue
        else:
            raise Unsupported('HttpMethod body: ' + ast.dump(s))
    if not names or len(set(names)) != len(names):
        raise Unsupported('HttpMethod members %r' % names)
    return names, hashlib.sha256(
        ast.get_source_segment(src, cls[0]).encode()).hexdigest()[:16]


# --------------------------------------------------------------------------
# security.is_sanctioned
# --------------------------------------------------------------------------
def sanction():
    src = open(os.path.join(PKG, 'security.py')).read()
    tree = ast.parse(src)
    fns = [n for n in tree.body
           if isinstance(n, ast.FunctionDef) and n.name == 'is_sanctioned']
    if len(fns) != 1:
        raise Unsupported('is_sanctioned not found exactly once')
    fn = fns[0]
    args = [a.arg for a in fn.args.args]
    if args != ['endpoint', 'cert'] or fn.args.vararg or fn.args.kwarg \
            or fn.args.kwonlyargs or fn.args.defaults or fn.decorator_list:
        raise Unsupported('is_sanctioned signature %r' % args)
    # clients() must be the plain copy of _certs the model assumes
    cl = [n for n in tree.body
          if isinstance(n, ast.FunctionDef) and n.name == 'clients']
    if len(cl) != 1:
        raise Unsupported('clients() not found')
    body = [s for s in cl[0].body
            if not (isinstance(s, ast.Expr) and isinstance(s.value, ast.Constant))]
    if len(body) != 1 or not isinstance(body[0], ast.Return) \
            or ast.unparse(body[0].value) != '_certs.copy()':
        raise Unsupported('clients() is no longer `return _certs.copy()`')
    tables = []

    def test(e):
        if isinstance(e, ast.Call) and isinstance(e.func, ast.Name) \
                and e.func.id == 'clients' and not e.args and not e.keywords:
            return 'clients'
        if isinstance(e, ast.Compare) and len(e.ops) == 1:
            l, r, op = e.left, e.comparators[0], e.ops[0]
            if isinstance(l, ast.Name) and l.id == 'cert' \
                    and isinstance(r, ast.Constant) and r.value is None:
                if isinstance(op, ast.Is):
                    return '(is_anon cert)'
                if isinstance(op, ast.IsNot):
                    return '(negb (is_anon cert))'
            if isinstance(l, ast.Name) and l.id == 'endpoint' \
                    and isinstance(r, ast.Name) and r.id == 'all_access':
                if not tables:
                    raise Unsupported('all_access read before assignment')
                if isinstance(op, ast.In):
                    return '(mem_str endpoint all_access)'
                if isinstance(op, ast.NotIn):
                    return '(negb (mem_str endpoint all_access))'
        if isinstance(e, ast.BoolOp):
            op = ' && ' if isinstance(e.op, ast.And) else ' || '
            return '(' + op.join(test(v) for v in e.values) + ')'
        if isinstance(e, ast.UnaryOp) and isinstance(e.op, ast.Not):
            return '(negb %s)' % test(e.operand)
        if isinstance(e, ast.Constant) and isinstance(e.value, bool):
            return 'true' if e.value else 'false'
        raise Unsupported('is_sanctioned test: ' + ast.unparse(e))

    def block(stmts, cont):
        if not stmts:
            if cont is None:
                raise Unsupported('is_sanctioned falls off the end')
            return cont
        s, rest = stmts[0], stmts[1:]
        if isinstance(s, ast.Expr) and isinstance(s.value, ast.Constant):
            return block(rest, cont)
        if isinstance(s, ast.Pass):
            return block(rest, cont)
        if isinstance(s, ast.Return):
            if isinstance(s.value, ast.Constant) and isinstance(s.value.value, bool):
                return 'true' if s.value.value else 'false'
            return test(s.value)
        if isinstance(s, ast.Assign):
            if (len(s.targets) == 1 and isinstance(s.targets[0], ast.Name)
                    and s.targets[0].id == 'all_access'
                    and isinstance(s.value, ast.List) and not tables
                    and all(isinstance(x, ast.Constant) and isinstance(x.value, str)
                            for x in s.value.elts)):
                tables.append([x.value for x in s.value.elts])
                return block(rest, cont)
            raise Unsupported('is_sanctioned assignment: ' + ast.unparse(s)[:80])
        if isinstance(s, ast.If):
            k = block(rest, cont) if (rest or cont is not None) else None
            return '(if %s then %s else %s)' % (
                test(s.test), block(s.body, k), block(s.orelse, k))
        raise Unsupported('is_sanctioned statement: ' + ast.unparse(s)[:80])

    term = block(fn.body, None)
    if len(tables) != 1:
        raise Unsupported('all_access list literal not found exactly once')
    # sanctioned(): try: return _lookup(context.sanction_override)(endpoint,
    # cert) / bare except: log / return False  -- shape checked, hand-modelled
    sf = [n for n in tree.body
          if isinstance(n, ast.FunctionDef) and n.name == 'sanctioned']
    if len(sf) != 1:
        raise Unsupported('sanctioned not found exactly once')
    stm = [s for s in sf[0].body
           if not isinstance(s, (ast.Import, ast.ImportFrom))
           and not (isinstance(s, ast.Expr) and isinstance(s.value, ast.Constant))]
    ok = (
        len(stm) == 2 and isinstance(stm[0], ast.Try)
        and len(stm[0].body) == 1 and isinstance(stm[0].body[0], ast.Return)
        and ast.unparse(stm[0].body[0].value)
        == '_lookup(dawgie.context.sanction_override)(endpoint, cert)'
        and len(stm[0].handlers) == 1 and stm[0].handlers[0].type is None
        and not stm[0].orelse and not stm[0].finalbody
        and all(isinstance(h, ast.Expr) and isinstance(h.value, ast.Call)
                and ast.unparse(h.value.func) == 'log.exception'
                for h in stm[0].handlers[0].body)
        and isinstance(stm[1], ast.Return)
        and isinstance(stm[1].value, ast.Constant) and stm[1].value.value is False
    )
    if not ok:
        raise Unsupported('sanctioned() is no longer try/lookup/except/False')
    sha = hashlib.sha256(
        (ast.get_source_segment(src, fn) + ast.get_source_segment(src, sf[0])).encode()
    ).hexdigest()[:16]
    return tables[0], term, sha


# --------------------------------------------------------------------------
# registrations
# --------------------------------------------------------------------------
def chain(e):
    '''attribute chain a.b.c -> ['a','b','c'] or None'''
    out = []
    while isinstance(e, ast.Attribute):
        out.append(e.attr)
        e = e.value
    if isinstance(e, ast.Name):
        out.append(e.id)
        return out[::-1]
    return None


def effects_of(fn, defs, seen=None):
    '''effect markers reachable from a def of this file (through calls of other
    module-level defs of the same file).'''
    seen = seen if seen is not None else set()
    if fn.name in seen:
        return set()
    seen.add(fn.name)
    out = set()
    for n in ast.walk(fn):
        if isinstance(n, ast.Attribute) and n.attr in EFFECTS:
            out.add(EFFECTS[n.attr])
        if isinstance(n, ast.Name) and n.id in defs and n.id != fn.name:
            out |= effects_of(defs[n.id], defs, seen)
    return out


def registrations(tag, rel, methods):
    path = os.path.join(PKG, rel)
    src = open(path).read()
    tree = ast.parse(src)
    defs, defers, sibs = {}, {}, set()
    for n in tree.body:
        if isinstance(n, ast.FunctionDef):
            defs[n.name] = n
        if isinstance(n, ast.ImportFrom) and n.level == 1 and n.module is None:
            for a in n.names:
                sibs.add(a.asname or a.name)
        if isinstance(n, ast.Assign) and len(n.targets) == 1 \
                and isinstance(n.targets[0], ast.Name):
            v = n.value
            if isinstance(v, ast.Call) and not v.args and not v.keywords:
                c = chain(v.func)
                if c and len(c) == 2 and c[1] == 'Defer':
                    defers[n.targets[0].id] = '.'.join(c)
                    continue
            # any other rebinding of a name used as handler is rejected below
            defers.setdefault(n.targets[0].id, None)
    # names bound more than once are ambiguous
    bound = {}
    for n in tree.body:
        names = []
        if isinstance(n, ast.FunctionDef):
            names = [n.name]
        elif isinstance(n, ast.Assign):
            for t in n.targets:
                names += [x.id for x in ast.walk(t) if isinstance(x, ast.Name)]
        for x in names:
            bound[x] = bound.get(x, 0) + 1
    regs = []
    calls_total = sum(
        1 for n in ast.walk(tree)
        if isinstance(n, ast.Call) and (
            (isinstance(n.func, ast.Name) and n.func.id == 'DynamicContent')
            or (isinstance(n.func, ast.Attribute) and n.func.attr == 'DynamicContent')))
    # DynamicContent must be the class imported from dawgie.fe.basis
    imp_ok = any(
        isinstance(n, ast.ImportFrom) and n.module == 'dawgie.fe.basis'
        and any(a.name == 'DynamicContent' and a.asname is None for a in n.names)
        for n in tree.body)
    if not imp_ok or bound.get('DynamicContent') or bound.get('HttpMethod'):
        raise Unsupported('%s: DynamicContent/HttpMethod are not the plain imports '
                          'of dawgie.fe.basis' % rel)
    for n in tree.body:
        if not (isinstance(n, ast.Expr) and isinstance(n.value, ast.Call)
                and isinstance(n.value.func, ast.Name)
                and n.value.func.id == 'DynamicContent'):
            continue
        c = n.value
        if c.keywords or not 2 <= len(c.args) <= 3:
            raise Unsupported('%s:%d registration shape' % (rel, n.lineno))
        h, u = c.args[0], c.args[1]
        if not (isinstance(u, ast.Constant) and isinstance(u.value, str)):
            raise Unsupported('%s:%d uri is not a string literal' % (rel, n.lineno))
        ms = []
        if len(c.args) == 3:
            m = c.args[2]
            if isinstance(m, ast.Constant) and m.value is None:
                ms = []
            elif isinstance(m, ast.List):
                for x in m.elts:
                    cx = chain(x)
                    if not cx or len(cx) != 2 or cx[0] != 'HttpMethod' \
                            or cx[1] not in methods:
                        raise Unsupported('%s:%d method %s' % (
                            rel, n.lineno, ast.unparse(x)))
                    ms.append(cx[1])
            else:
                raise Unsupported('%s:%d methods %s' % (rel, n.lineno, ast.unparse(m)))
        hc = chain(h)
        if not hc:
            raise Unsupported('%s:%d handler %s' % (rel, n.lineno, ast.unparse(h)))
        if len(hc) == 1:
            nm = hc[0]
            if bound.get(nm, 0) != 1:
                raise Unsupported('%s:%d handler %s bound %d times' % (
                    rel, n.lineno, nm, bound.get(nm, 0)))
            if nm in defs:
                kind, eff = 'def', sorted(effects_of(defs[nm], defs))
            elif defers.get(nm):
                kind, eff = defers[nm], ['deferred:' + defers[nm]]
            else:
                raise Unsupported('%s:%d handler %s is neither a def nor a '
                                  'Defer() instance' % (rel, n.lineno, nm))
            name = '%s.%s' % (tag, nm)
        elif len(hc) == 2 and hc[0] in sibs and hc[0] not in bound:
            kind, name = 'sibling', '%s.%s.%s' % (tag, hc[0], hc[1])
            eff = sibling_effects(rel, hc[0], hc[1])
        else:
            raise Unsupported('%s:%d handler %s' % (rel, n.lineno, ast.unparse(h)))
        regs.append((u.value, name, ms, eff, kind))
    if calls_total != len(regs):
        raise Unsupported('%s: %d DynamicContent calls but %d module-level '
                          'registrations' % (rel, calls_total, len(regs)))
    return regs, hashlib.sha256(src.encode()).hexdigest()[:16]


_SIB = {}


def sibling_effects(rel, mod, attr):
    '''effect markers of <dir of rel>/<mod>.py:<attr> (def, or NAME = Cls()
    instance whose class is defined there: markers of the whole class).'''
    path = os.path.join(PKG, os.path.dirname(rel), mod + '.py')
    if path not in _SIB:
        if not os.path.exists(path):
            raise Unsupported('sibling module %s not found' % path)
        _SIB[path] = ast.parse(open(path).read())
    tree = _SIB[path]
    defs = {n.name: n for n in tree.body if isinstance(n, ast.FunctionDef)}
    classes = {n.name: n for n in tree.body if isinstance(n, ast.ClassDef)}
    if attr in defs:
        return sorted(effects_of(defs[attr], defs))
    for n in tree.body:
        if isinstance(n, ast.Assign) and len(n.targets) == 1 \
                and isinstance(n.targets[0], ast.Name) and n.targets[0].id == attr \
                and isinstance(n.value, ast.Call) and isinstance(n.value.func, ast.Name) \
                and n.value.func.id in classes:
            cls = classes[n.value.func.id]
            out = set()
            for m in cls.body:
                if isinstance(m, ast.FunctionDef):
                    out |= effects_of(m, defs)
            return sorted(out)
        if isinstance(n, ast.Assign) and len(n.targets) == 1 \
                and isinstance(n.targets[0], ast.Name) and n.targets[0].id == attr \
                and isinstance(n.value, ast.Call) and not n.value.args \
                and not n.value.keywords:
            c = chain(n.value.func)
            if c and len(c) == 2 and c[1] == 'Defer':
                return ['deferred:' + '.'.join(c)]
    raise Unsupported('%s.%s is neither a def nor an instance of a local class'
                      % (mod, attr))


def scan_others():
    skip = {os.path.join(PKG, r) for _, r in REG_FILES}
    skip.add(os.path.join(PKG, 'fe/basis.py'))
    for root, _, files in os.walk(PKG):
        for f in files:
            p = os.path.join(root, f)
            if not f.endswith('.py') or p in skip:
                continue
            try:
                tree = ast.parse(open(p).read())
            except SyntaxError:
                raise Unsupported('cannot parse ' + p)
            for n in ast.walk(tree):
                if isinstance(n, ast.Call):
                    c = chain(n.func)
                    if c and c[-1] == 'DynamicContent':
                        raise Unsupported(
                            '%s:%d registers an endpoint outside fe/api/__init__.py '
                            'and fe/app.py' % (p, n.lineno))


def main():
    methods, msha = http_methods()
    table, term, ssha = sanction()
    out = ['(* GENERATED by tools/translate/endpoints2coq.py from '
           'Python/dawgie/{security.py,fe/basis.py,fe/api/__init__.py,fe/app.py}'
           ' -- do not edit *)',
           'From Coq Require Import List String Bool.',
           'Import ListNotations.', 'Local Open Scope string_scope.',
           'Local Open Scope bool_scope.', '',
           '(* fe/basis.py HttpMethod sha256=%s *)' % msha,
           'Inductive method : Set := ' + ' | '.join('M_' + m for m in methods) + '.',
           'Definition all_methods : list method := ['
           + '; '.join('M_' + m for m in methods) + '].',
           'Definition method_eqb (a b : method) : bool :=\n  match a, b with '
           + ' | '.join('M_%s, M_%s => true' % (m, m) for m in methods)
           + ' | _, _ => false end.', '',
           'Definition mem_str (x : string) (l : list string) : bool := '
           'existsb (String.eqb x) l.',
           'Definition is_anon {A : Type} (c : option A) : bool := '
           'match c with None => true | Some _ => false end.', '',
           '(* security.py is_sanctioned+sanctioned sha256=%s *)' % ssha,
           'Definition all_access : list string := [']
    out += ['  %s%s' % (qstr(s), ';' if i + 1 < len(table) else '')
            for i, s in enumerate(table)]
    out += ['].', '',
            '(* clients = bool(security.clients()); cert = None for an anonymous '
            'caller *)',
            'Definition is_sanctioned {A : Type} (clients : bool) (endpoint : string) '
            '(cert : option A) : bool :=', '  %s.' % term, '']
    scan_others()
    allregs = []
    for tag, rel in REG_FILES:
        regs, sha = registrations(tag, rel, methods)
        out.append('(* %s sha256=%s : %d registrations *)' % (rel, sha, len(regs)))
        allregs += regs
    out.append('(* uri, handler, methods argument ([] = omitted/None), effect '
               'markers found in the handler body *)')
    out.append('Definition registered : list (string * string * list method * '
               'list string) := [')
    for i, (u, name, ms, eff, _) in enumerate(allregs):
        out.append('  (%s, %s, [%s], [%s])%s' % (
            qstr(u), qstr(name), '; '.join('M_' + m for m in ms),
            '; '.join(qstr(e) for e in eff), ';' if i + 1 < len(allregs) else ''))
    out.append('].')
    print('\n'.join(out))


if __name__ == '__main__':
    try:
        main()
    except Unsupported as e:
        sys.stderr.write('endpoints2coq: unsupported source construct: %s\n' % e)
        sys.exit(2)
    except (KeyError, IndexError, SyntaxError, OSError) as e:
        sys.stderr.write('endpoints2coq: source shape changed: %r\n' % e)
        sys.exit(2)
