'''farm2coq.py -- fail-closed translation of the eligibility tests and the
queue order of dawgie/pl/farm.py to Gallina (coq/Gen/FarmGen.v):

  Hand._reg                 -> hand_reg      : the effects of a registration
  Hand._process (status)    -> hand_status   : the effects of a status poll
  something_to_do           -> something_to_do
  _cluster_sort.comparator  -> comparator    (+ cluster_sort: list.sort with
                               functools.cmp_to_key = a stable sort, spelled
                               as the insertion sort the model uses)
  _workers_sort             -> workers_sort  (shape-checked statement by
                               statement against a template; the comparison
                               inside the inner loop is read from the source)

Tests are boolean formulas over these atoms (anything else: exit 2):
    msg.revision != dawgie.context.git_rev        negb rev_ok
    msg.revision == dawgie.context.git_rev        rev_ok
    dawgie.context.fsm.is_pipeline_active()       active
    dawgie.context.fsm.waiting_on_crew()          crew
    _agency  (truth value of the module list)     true  -- checked: `_agency =
             [None]` at module level and no statement of the module shrinks
             it (clear/pop/remove/del/rebinding); only `_agency[0] = ...`
A branch is the list of its effects (anything else in a branch: exit 2):
    dawgie.pl.message.send(self._abort, self)     ESendAbort
    dawgie.pl.message.send(self.__proceed, self)  ESendProceed
    self.transport.loseConnection()               EClose
    _workers.append(self)                         ERegister
    log.*(...), self.__incarnation = msg.incarnation, pass, bare return: no effect
Hand.__init__ is checked to build _abort = make(typ=response, suc=False) and
__proceed = make(typ=response, suc=True).
The comparator goes through pyfrag.py; `0 if key not in insights else
insights[key].cpu` with key = '.'.join([target or '__all__', jobid]) is the
abstract function `cpu : msg -> Z` (the two statements are checked textually).'''
import ast
import hashlib
import os
import sys

sys.path.insert(0, os.path.dirname(os.path.abspath(__file__)))
from pyfrag import Tr, Unsupported  # noqa: E402

REPO = os.environ.get('VERIF_REPO', '/repo')
SRC = os.path.join(REPO, 'Python/dawgie/pl/farm.py')

ATOMS = {
    'msg.revision != dawgie.context.git_rev': '(negb rev_ok)',
    'msg.revision == dawgie.context.git_rev': 'rev_ok',
    'dawgie.context.fsm.is_pipeline_active()': 'active',
    'dawgie.context.fsm.waiting_on_crew()': 'crew',
    '_agency': 'true',
}
EFFECTS = {
    'dawgie.pl.message.send(self._abort, self)': 'ESendAbort',
    'dawgie.pl.message.send(self.__proceed, self)': 'ESendProceed',
    'self.transport.loseConnection()': 'EClose',
    '_workers.append(self)': 'ERegister',
}
NOEFFECT = ('self.__incarnation = msg.incarnation', 'return')

PRELUDE = '''From Coq Require Import List Arith ZArith Bool.
From DV Require Import Model.Sched.
Import ListNotations.
(* ---- fixed prelude of the translation ---- *)
Inductive eff := ESendAbort | ESendProceed | EClose | ERegister.
Definition b2z (b : bool) : Z := if b then 1%Z else 0%Z.
(* list.sort(key=functools.cmp_to_key(cmp)): a stable sort; as an insertion
   sort: an element goes before the first one it is smaller than *)
Fixpoint ins_cmp (cmp : msg -> msg -> Z) (m : msg) (l : list msg) : list msg :=
  match l with
  | [] => [m]
  | y :: r => if (cmp m y <? 0)%Z then m :: y :: r else y :: ins_cmp cmp m r
  end.
(* ---- translated functions ---- *)'''


def sha(src, node):
    return hashlib.sha256(ast.get_source_segment(src, node).encode()).hexdigest()[:16]


def test(e):
    txt = ast.unparse(e)
    if txt in ATOMS:
        return ATOMS[txt]
    if isinstance(e, ast.BoolOp):
        op = ' && ' if isinstance(e.op, ast.And) else ' || '
        return '(' + op.join(test(v) for v in e.values) + ')'
    if isinstance(e, ast.UnaryOp) and isinstance(e.op, ast.Not):
        return '(negb %s)' % test(e.operand)
    raise Unsupported('test ' + txt)


def effects(stmts):
    '''Gallina list of effects of a statement list (nested ifs allowed)'''
    parts = []
    for s in stmts:
        txt = ast.unparse(s)
        if isinstance(s, ast.Pass) or txt in NOEFFECT:
            continue
        if isinstance(s, ast.Expr) and isinstance(s.value, ast.Constant):
            continue
        if isinstance(s, ast.Expr) and isinstance(s.value, ast.Call):
            if txt in EFFECTS:
                parts.append('[%s]' % EFFECTS[txt])
                continue
            f = s.value.func
            if isinstance(f, ast.Attribute) and isinstance(f.value, ast.Name) and f.value.id == 'log':
                continue
            raise Unsupported('effect ' + txt)
        if isinstance(s, ast.If):
            parts.append('(if %s then %s else %s)' % (test(s.test), effects(s.body), effects(s.orelse)))
            continue
        raise Unsupported('statement ' + txt)
    if not parts:
        return '[]'
    return '(' + ' ++ '.join(parts) + ')' if len(parts) > 1 else parts[0]


def ret_chain(stmts):
    '''if t: return c ... return c   ->  Gallina boolean'''
    stmts = [s for s in stmts if not (isinstance(s, ast.Expr) and (
        isinstance(s.value, ast.Constant) or (
            isinstance(s.value, ast.Call) and isinstance(s.value.func, ast.Attribute)
            and isinstance(s.value.func.value, ast.Name) and s.value.func.value.id == 'log')))]
    if not stmts:
        raise Unsupported('falls off the end without return')
    s, rest = stmts[0], stmts[1:]
    if isinstance(s, ast.Return):
        if isinstance(s.value, ast.Constant) and isinstance(s.value.value, bool):
            return 'true' if s.value.value else 'false'
        return test(s.value)
    if isinstance(s, ast.If) and not s.orelse:
        return '(if %s then %s else %s)' % (test(s.test), ret_chain(s.body), ret_chain(rest))
    raise Unsupported('statement ' + ast.unparse(s))


def main():
    src = open(SRC).read()
    tree = ast.parse(src)
    top = {n.name: n for n in tree.body if isinstance(n, (ast.FunctionDef, ast.ClassDef))}
    hand = {n.name: n for n in top['Hand'].body if isinstance(n, ast.FunctionDef)}
    out = ['(* GENERATED from %s -- do not edit *)' % SRC, PRELUDE]

    # -- _agency is a module list that never becomes empty ---------------------
    ag = [n for n in tree.body if isinstance(n, ast.Assign) and ast.unparse(n.targets[0]) == '_agency']
    if len(ag) != 1 or not (isinstance(ag[0].value, ast.List) and ag[0].value.elts):
        raise Unsupported('_agency is no longer a non-empty list literal')
    for n in ast.walk(tree):
        if isinstance(n, ast.Call) and isinstance(n.func, ast.Attribute) and ast.unparse(n.func.value) == '_agency':
            raise Unsupported('a method of _agency is called: ' + ast.unparse(n))
        if isinstance(n, ast.Delete) and '_agency' in ast.unparse(n):
            raise Unsupported(ast.unparse(n))
        if isinstance(n, (ast.Global, ast.Nonlocal)) and '_agency' in n.names:
            raise Unsupported('_agency is rebound')
        if isinstance(n, (ast.Assign, ast.AugAssign)) and n is not ag[0]:
            tg = n.targets if isinstance(n, ast.Assign) else [n.target]
            if any(ast.unparse(t) == '_agency' for t in tg):
                raise Unsupported('_agency is rebound')

    # -- the two canned replies ---------------------------------------------------
    init = {ast.unparse(s.targets[0]): ast.unparse(s.value) for s in hand['__init__'].body
            if isinstance(s, ast.Assign)}
    if init.get('self._abort') != 'dawgie.pl.message.make(typ=dawgie.pl.message.Type.response, suc=False)' \
            or init.get('self.__proceed') != 'dawgie.pl.message.make(typ=dawgie.pl.message.Type.response, suc=True)':
        raise Unsupported('Hand.__init__: _abort / __proceed are built differently')

    # -- Hand._reg -------------------------------------------------------------------
    fn = hand['_reg']
    if [a.arg for a in fn.args.args] != ['self', 'msg']:
        raise Unsupported('_reg signature')
    out.append('(* Hand._reg sha256=%s *)' % sha(src, fn))
    out.append('Definition hand_reg (rev_ok : bool) : list eff :=\n  %s.' % effects(fn.body))

    # -- Hand._process, the status branch ----------------------------------------------
    fn = hand['_process']
    if [a.arg for a in fn.args.args] != ['self', 'msg']:
        raise Unsupported('_process signature')
    body = [s for s in fn.body if not isinstance(s, ast.Return)
            and not (isinstance(s, ast.Expr) and isinstance(s.value, ast.Constant))]
    if len(body) != 1 or not isinstance(body[0], ast.If):
        raise Unsupported('_process is no longer one if/elif chain on msg.type')
    node, status = body[0], None
    seen = []
    while True:
        t = ast.unparse(node.test)
        if not t.startswith('msg.type == dawgie.pl.message.Type.'):
            raise Unsupported('_process test ' + t)
        seen.append(t.rsplit('.', 1)[1])
        if seen[-1] == 'status':
            status = node.body
        if len(node.orelse) == 1 and isinstance(node.orelse[0], ast.If):
            node = node.orelse[0]
        else:
            break
    if status is None or seen.count('status') != 1:
        raise Unsupported('_process has no single status branch: %r' % (seen,))
    out.append('(* Hand._process sha256=%s (branches %s; the status branch) *)' % (sha(src, fn), ','.join(seen)))
    out.append('Definition hand_status (rev_ok active : bool) : list eff :=\n  %s.' % effects(status))

    # -- something_to_do -----------------------------------------------------------------
    fn = top['something_to_do']
    if fn.args.args:
        raise Unsupported('something_to_do signature')
    out.append('(* something_to_do sha256=%s *)' % sha(src, fn))
    out.append('Definition something_to_do (crew active : bool) : bool :=\n  %s.' % ret_chain(fn.body))

    # -- _cluster_sort ----------------------------------------------------------------------
    fn = top['_cluster_sort']
    body = [s for s in fn.body if not (isinstance(s, ast.Expr) and isinstance(s.value, ast.Constant))]
    if len(body) != 2 or not isinstance(body[0], ast.FunctionDef) or \
            ast.unparse(body[1]) != '_cluster.sort(key=functools.cmp_to_key(%s))' % body[0].name:
        raise Unsupported('_cluster_sort is no longer `def cmp` + `_cluster.sort(key=cmp_to_key(cmp))`')
    cmpf = body[0]
    pa = [a.arg for a in cmpf.args.args]
    if len(pa) != 2:
        raise Unsupported('comparator arity')

    class R(ast.NodeTransformer):
        '''key = '.'.join([m.target if m.target else '__all__', m.jobid]);
           x = 0 if key not in insights else insights[key].cpu     ->   x = cpu(m)'''

        def rewrite(self, stmts):
            res, i = [], 0
            while i < len(stmts):
                s = stmts[i]
                hit = None
                for m in pa:
                    if ast.unparse(s) == "key = '.'.join([%s.target if %s.target else '__all__', %s.jobid])" % (m, m, m):
                        hit = m
                if hit and i + 1 < len(stmts):
                    n = stmts[i + 1]
                    if isinstance(n, ast.Assign) and len(n.targets) == 1 and isinstance(n.targets[0], ast.Name) \
                            and ast.unparse(n.value) == '0 if key not in insights else insights[key].cpu':
                        res.append(ast.Assign([n.targets[0]], ast.Call(ast.Name('cpu', ast.Load()),
                                                                       [ast.Name(hit, ast.Load())], []),
                                              lineno=n.lineno))
                        i += 2
                        continue
                if isinstance(s, ast.If):
                    s = ast.If(s.test, self.rewrite(s.body), self.rewrite(s.orelse))
                res.append(s)
                i += 1
            return res
    cmp2 = ast.FunctionDef(name=cmpf.name, args=cmpf.args, body=R().rewrite(cmpf.body), decorator_list=[])
    ast.fix_missing_locations(cmp2)
    for n in ast.walk(cmp2):
        if isinstance(n, ast.Name) and n.id in ('insights', 'key'):
            raise Unsupported('the insight lookup changed shape: ' + ast.unparse(cmpf))
    tr = Tr(FUNCS={'cpu': ([('msg', None)], 'Z', False)})
    tr.FIELDS = {('msg', 'runid'): ('m_rid', 'Z')}
    text, ty, raises = tr.function(cmp2, 'comparator', [(pa[0], 'msg'), (pa[1], 'msg')], ret='Z')
    if raises:
        raise Unsupported('comparator may raise')
    text = text.replace('Definition comparator ', 'Definition comparator (cpu : msg -> Z) ', 1)
    out.append('(* _cluster_sort sha256=%s *)' % sha(src, fn))
    out.append(text)
    out.append('Definition cluster_sort (cpu : msg -> Z) (l : list msg) : list msg :=\n'
               '  fold_left (fun acc m => ins_cmp (comparator cpu) m acc) l [].')
    out += workers_sort(src, top['_workers_sort'])
    print('\n'.join(out))


WS_FIXED = [
    'wg = {wa: [] for wa in set((w.address.host for w in _workers))}',
    'wk = sorted(wg)',
    'for worker in _workers:\n    wg[worker.address.host].append(worker)',
    '_workers.clear()',
]
WS_TEMPLATE = '''(* _workers_sort sha256=%(sha)s -- shape-checked statement by statement:
     wg = {host: [] for host in set(hosts)} ; wk = sorted(wg)
     for worker in _workers: wg[host of worker].append(worker)
     _workers.clear()
     while sum(len(v) for v in wg.values()):
         longest = []
         for k in wk:
             if len(wg[k]) %(op)s len(longest): longest = wg[k]      <- the comparison is read from the source
         _workers.append(longest.pop(0))
   A worker is (id, host); wg is an association list whose keys are wk (sorted
   hosts).  `longest` aliases one of the lists of wg: it is kept as the key of
   that list (None = the fresh []), pop(0) removes the head of that list in
   wg.  The while loop runs on fuel = number of workers (every iteration pops
   one).  None = IndexError (pop from the fresh []) / fuel exhausted. *)
Definition ws_keys (w : list (wid * nat)) : list nat :=
  sort_nat (fold_left (fun acc p => add (snd p) acc) w []).
Fixpoint ws_append (h : nat) (x : wid * nat) (wg : list (nat * list (wid * nat))) :=
  match wg with
  | [] => []
  | (k, g) :: r => if Nat.eqb k h then (k, g ++ [x]) :: r else (k, g) :: ws_append h x r
  end.
Definition ws_groups (w : list (wid * nat)) : list (nat * list (wid * nat)) :=
  fold_left (fun wg worker => ws_append (snd worker) worker wg) w (map (fun k => (k, [])) (ws_keys w)).
Definition ws_total (wg : list (nat * list (wid * nat))) : nat :=
  fold_left (fun a kv => a + length (snd kv)) wg 0.
Definition ws_longest (wg : list (nat * list (wid * nat))) : option nat * list (wid * nat) :=
  fold_left (fun best kv => if %(cmp)s then (Some (fst kv), snd kv) else best) wg (None, []).
Fixpoint ws_pop (k : nat) (wg : list (nat * list (wid * nat)))
  : option ((wid * nat) * list (nat * list (wid * nat))) :=
  match wg with
  | [] => None
  | (k', g) :: r =>
    if Nat.eqb k' k then match g with [] => None | x :: g' => Some (x, (k', g') :: r) end
    else match ws_pop k r with Some (x, r') => Some (x, (k', g) :: r') | None => None end
  end.
Fixpoint ws_loop (fuel : nat) (wg : list (nat * list (wid * nat))) (acc : list (wid * nat))
  : option (list (wid * nat)) :=
  if Nat.eqb (ws_total wg) 0 then Some acc else
  match fuel with
  | 0 => None
  | S f => match fst (ws_longest wg) with
           | None => None
           | Some k => match ws_pop k wg with
                       | None => None
                       | Some (x, wg') => ws_loop f wg' (acc ++ [x])
                       end
           end
  end.
Definition workers_sort (w : list (wid * nat)) : option (list (wid * nat)) :=
  ws_loop (length w) (ws_groups w) [].'''


def workers_sort(src, fn):
    body = [s for s in fn.body if not (isinstance(s, ast.Expr) and isinstance(s.value, ast.Constant))]
    if fn.args.args or len(body) != 5:
        raise Unsupported('_workers_sort: %d statements, the translation knows 5' % len(body))
    got = [ast.unparse(s) for s in body[:4]]
    if got != WS_FIXED:
        bad = [g for g, w in zip(got, WS_FIXED) if g != w][0]
        raise Unsupported('_workers_sort statement changed: ' + bad)
    wh = body[4]
    if not (isinstance(wh, ast.While) and not wh.orelse
            and ast.unparse(wh.test) == 'sum((len(v) for v in wg.values()))'):
        raise Unsupported('_workers_sort loop header: ' + ast.unparse(wh).split('\n')[0])
    wb = [s for s in wh.body if not isinstance(s, ast.Pass)]
    if len(wb) != 3 or ast.unparse(wb[0]) != 'longest = []' \
            or ast.unparse(wb[2]) != '_workers.append(longest.pop(0))':
        raise Unsupported('_workers_sort loop body changed')
    fr = wb[1]
    if not (isinstance(fr, ast.For) and not fr.orelse and ast.unparse(fr.target) == 'k'
            and ast.unparse(fr.iter) == 'wk'):
        raise Unsupported('_workers_sort inner loop header')
    fb = [s for s in fr.body if not isinstance(s, ast.Pass)]
    if not (len(fb) == 1 and isinstance(fb[0], ast.If) and not fb[0].orelse
            and [ast.unparse(x) for x in fb[0].body] == ['longest = wg[k]']):
        raise Unsupported('_workers_sort inner loop body')
    t = fb[0].test
    if not (isinstance(t, ast.Compare) and len(t.ops) == 1 and ast.unparse(t.left) == 'len(wg[k])'
            and ast.unparse(t.comparators[0]) == 'len(longest)'):
        raise Unsupported('_workers_sort comparison: ' + ast.unparse(t))
    g, lg = 'length (snd kv)', 'length (snd best)'
    ops = {ast.Gt: ('>', '%s <? %s' % (lg, g)), ast.GtE: ('>=', '%s <=? %s' % (lg, g)),
           ast.Lt: ('<', '%s <? %s' % (g, lg)), ast.LtE: ('<=', '%s <=? %s' % (g, lg)),
           ast.NotEq: ('!=', 'negb (Nat.eqb %s %s)' % (g, lg)), ast.Eq: ('==', 'Nat.eqb %s %s' % (g, lg))}
    if type(t.ops[0]) not in ops:
        raise Unsupported('_workers_sort comparison operator')
    op, cmp_ = ops[type(t.ops[0])]
    return [WS_TEMPLATE % {'sha': sha(src, fn), 'op': op, 'cmp': cmp_}]


if __name__ == '__main__':
    try:
        main()
    except Unsupported as e:
        sys.stderr.write('farm2coq: unsupported source construct: %s\n' % e)
        sys.exit(2)
    except (KeyError, IndexError, SyntaxError, AttributeError, TypeError) as e:
        sys.stderr.write('farm2coq: source shape changed: %r\n' % e)
        sys.exit(2)
