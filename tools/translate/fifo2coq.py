'''fifo2coq.py -- fail-closed translation of dawgie/util/fifo.py class Unique
(the insertion-ordered set behind every node's `todo`) to Gallina
(coq/Gen/FifoGen.v).  The statement/expression fragment is pyfrag.py.

The object is the pair of its two private attributes
    (self.__order : list nat,  self.__unique : python set of nat)
and every translated method is a function of that pair; a method without
return value returns the new pair.  A python set is a list (only membership,
size and difference are observed); the built-in container operations are the
definitions of the fixed prelude below:

    v in s / v not in s     py_in v s            l.append(v)   l ++ [v]
    s.add(v)                set_add v s          l.remove(v)   list_remove v l  (ValueError = None)
    s.remove(v)             set_remove v s       (KeyError = None)
    s.difference(o)         set_diff s o         l.copy(), l.__iter__()   l
    self |= it              ior st it = collections.abc.MutableSet.__ior__
                            (for value in it: self.add(value)); checked: Unique
                            does not override __ior__

`it` (an iterable or None) is a list; None and [] are both falsy and only
the truth value of `it` is tested.  Methods NOT translated: __eq__, __repr__
(isinstance / f-strings are outside the fragment; the scheduler model does
not use them).  Any other construct in a translated method: exit 2.'''
import ast
import hashlib
import os
import sys

sys.path.insert(0, os.path.dirname(os.path.abspath(__file__)))
from pyfrag import Tr, Unsupported  # noqa: E402

REPO = os.environ.get('VERIF_REPO', '/repo')
SRC = os.path.join(REPO, 'Python/dawgie/util/fifo.py')

PRELUDE = '''From Coq Require Import List Arith Bool.
Import ListNotations.
(* ---- fixed prelude of the translation: python list / set built-ins ---- *)
Definition py_in (v : nat) (s : list nat) : bool := existsb (Nat.eqb v) s.
Definition set_add (v : nat) (s : list nat) : list nat := if py_in v s then s else v :: s.
Definition set_remove (v : nat) (s : list nat) : option (list nat) :=
  if py_in v s then Some (filter (fun u => negb (Nat.eqb u v)) s) else None.
Definition set_diff (s o : list nat) : list nat := filter (fun u => negb (py_in u o)) s.
Fixpoint list_remove (v : nat) (l : list nat) : option (list nat) :=
  match l with
  | [] => None
  | x :: r => if Nat.eqb x v then Some r
              else match list_remove v r with Some r' => Some (x :: r') | None => None end
  end.
Definition ustate := (list nat * list nat)%type.      (* (__order, __unique) *)
(* ---- translated methods ---- *)'''

ORDER = ['add', '__ior__', '__init__', '__contains__', '__iter__', '__len__', 'copy',
         'difference', 'discard', 'update']
STATE = [('order', ('list', 'nat')), ('unique', 'natset')]


def sha(src, node):
    return hashlib.sha256(ast.get_source_segment(src, node).encode()).hexdigest()[:16]


def main():
    src = open(SRC).read()
    tree = ast.parse(src)
    cls = [n for n in tree.body if isinstance(n, ast.ClassDef) and n.name == 'Unique']
    if len(cls) != 1:
        raise Unsupported('class Unique not found')
    cls = cls[0]
    if [ast.unparse(b) for b in cls.bases] != ['collections.abc.MutableSet']:
        raise Unsupported('bases of Unique changed: the mixin methods (|=, remove) are others')
    fns = {n.name: n for n in cls.body if isinstance(n, ast.FunctionDef)}
    for bad in ('__ior__', 'remove', '__or__', 'pop', 'clear'):
        if bad in fns:
            raise Unsupported('Unique now overrides %s' % bad)
    extra = [n for n in cls.body if not isinstance(n, (ast.FunctionDef, ast.Pass))
             and not (isinstance(n, ast.Expr) and isinstance(n.value, ast.Constant))]
    if extra:
        raise Unsupported('class body statement ' + ast.unparse(extra[0]))

    def ident(r, a):
        if a:
            raise Unsupported('copy/__iter__ with arguments')
        return r, ('list', 'nat')

    def m_append(r, a):
        if len(a) == 1 and a[0][1] == 'nat':
            return '(%s ++ [%s])' % (r, a[0][0]), False
        raise Unsupported('append of %r' % (a,))

    def m_lremove(r, a):
        if len(a) == 1 and a[0][1] == 'nat':
            return 'list_remove %s %s' % (a[0][0], r), True
        raise Unsupported('remove of %r' % (a,))

    def m_sadd(r, a):
        if len(a) == 1 and a[0][1] == 'nat':
            return '(set_add %s %s)' % (a[0][0], r), False
        raise Unsupported('add of %r' % (a,))

    def m_sremove(r, a):
        if len(a) == 1 and a[0][1] == 'nat':
            return 'set_remove %s %s' % (a[0][0], r), True
        raise Unsupported('remove of %r' % (a,))

    def m_diff(r, a):
        if len(a) == 1 and a[0][1] == ('list', 'nat'):
            return '(set_diff %s %s)' % (r, a[0][0]), 'natset'
        raise Unsupported('difference of %r' % (a,))

    METHODS = {('list', 'copy'): ident, ('list', '__iter__'): ident, ('natset', 'difference'): m_diff}
    MUTATORS = {('list', 'append'): m_append, ('list', 'remove'): m_lremove,
                ('natset', 'add'): m_sadd, ('natset', 'remove'): m_sremove}
    ATTR = {'self.__order': 'order', 'self.__unique': 'unique'}
    SELF, FUNCS = {}, {}
    tr = Tr(FUNCS=FUNCS, METHODS=METHODS, MUTATORS=MUTATORS, SELF=SELF, ATTR=ATTR,
            STATE=[n for n, _ in STATE])
    tr.MEM = 'py_in'
    tr.FNAME['Unique'] = 'init'
    out = ['(* GENERATED from %s (class Unique) -- do not edit *)' % SRC, PRELUDE]
    st_names = [n for n, _ in STATE]

    def sig(fn, want):
        a = fn.args
        got = [x.arg for x in a.args]
        if got != want or a.vararg or a.kwarg or a.kwonlyargs:
            raise Unsupported('%s%r: the translation knows %r' % (fn.name, got, want))

    for name in ORDER:
        if name == '__ior__':
            # the mixin, spelled with the translated add
            out.append('(* collections.abc.MutableSet.__ior__ (python standard library): '
                       'for value in it: self.add(value) *)')
            out.append('Definition ior (st_ : ustate) (it_ : list nat) : ustate :=\n'
                       '  fold_left (fun st_ value_ => add st_ value_) it_ st_.')
            SELF['__ior__'] = (st_names, False)
            continue
        fn = fns[name]
        out.append('(* Unique.%s sha256=%s *)' % (name, sha(src, fn)))
        if name == '__init__':
            sig(fn, ['self', 'it'])
            if ast.unparse(fn.args.defaults[0]) != 'None':
                raise Unsupported('__init__ default')
            body = [s for s in fn.body if not isinstance(s, ast.Pass)]
            if [ast.unparse(s) for s in body[:2]] != ['self.__order = []', 'self.__unique = set()']:
                raise Unsupported('__init__ no longer starts with the two empty containers')
            rest = []
            for s in body[2:]:
                for sub in ast.walk(s):
                    if isinstance(sub, ast.AugAssign):
                        if not (isinstance(sub.op, ast.BitOr) and ast.unparse(sub.target) == 'self'):
                            raise Unsupported(ast.unparse(sub))
                rest.append(s)

            class R(ast.NodeTransformer):
                def visit_AugAssign(self, n):
                    return ast.Expr(ast.Call(ast.Attribute(ast.Name('self', ast.Load()), '__ior__', ast.Load()),
                                             [n.value], []))
            fn2 = ast.FunctionDef(name='__init__', args=fn.args, body=[R().visit(s) for s in rest] or [ast.Pass()],
                                  decorator_list=[])
            text, ty, raises = tr.function(fn2, 'init0', [('it', ('list', 'nat'))], state_ret=st_names,
                                           state=STATE)
            if raises:
                raise Unsupported('__init__ may raise')
            out.append(text)
            out.append('Definition init (it_ : list nat) : ustate := init0 ([], []) it_.')
            FUNCS['Unique'] = ([(('list', 'nat'), '[]')], 'ustate', False)
            continue
        if name in ('add', 'discard'):
            sig(fn, ['self', 'value'])
            text, ty, raises = tr.function(fn, name, [('value', 'nat')], state_ret=st_names, state=STATE)
            if raises != (name == 'discard'):
                raise Unsupported('%s: raising behaviour changed (the model type changes)' % name)
            SELF[name] = (st_names, raises)
        elif name == 'update':
            sig(fn, ['self', 'it'])
            text, ty, raises = tr.function(fn, name, [('it', ('list', 'nat'))], state_ret=st_names, state=STATE)
            if raises:
                raise Unsupported('update may raise')
            SELF[name] = (st_names, False)
        elif name == '__contains__':
            sig(fn, ['self', 'value'])
            text, ty, raises = tr.function(fn, 'contains', [('value', 'nat')], ret='bool', state=STATE)
        elif name == '__iter__':
            sig(fn, ['self'])
            text, ty, raises = tr.function(fn, 'iter', [], ret=('list', 'nat'), state=STATE)
        elif name == '__len__':
            sig(fn, ['self'])
            text, ty, raises = tr.function(fn, 'len', [], ret='nat', state=STATE)
        elif name == 'copy':
            sig(fn, ['self'])
            text, ty, raises = tr.function(fn, 'copy', [], ret='ustate', state=STATE)
        elif name == 'difference':
            sig(fn, ['self', 'other'])
            text, ty, raises = tr.function(fn, 'difference', [('other', ('list', 'nat'))], ret='natset', state=STATE)
        if raises and name != 'discard':
            raise Unsupported(name + ' may raise')
        out.append(text)
    print('\n'.join(out))


if __name__ == '__main__':
    try:
        main()
    except Unsupported as e:
        sys.stderr.write('fifo2coq: unsupported source construct: %s\n' % e)
        sys.exit(2)
    except (KeyError, IndexError, SyntaxError, AttributeError, TypeError) as e:
        sys.stderr.write('fifo2coq: source shape changed: %r\n' % e)
        sys.exit(2)
