'''frame2coq.py -- fail-closed translation of the length-prefix code of DAWGIE
to Gallina (coq/Gen/FrameGen.v), over the byte-list vocabulary of
Model/Frame.v and Model/Client.v:

  senders    dawgie/pl/message.py   send            -> message_send : payload -> bytes
             dawgie/db/shelve/comms.py Worker._send -> worker_send
  receivers  (Twisted dataReceived: state = framing buffer + expected length)
             dawgie/pl/logger/__init__.py LogSink   -> logsink_hlen / _init / _need / _iter / _feed
             dawgie/db/shelve/comms.py    Worker    -> worker_...
             dawgie/pl/farm.py            Hand      -> hand_...
  blocking   dawgie/pl/message.py   receive         -> message_receive : sock -> option (payload * sock)

The python fragment (anything else: exit 2).  BUF / LEN / BLEN are the three
framing attributes of the class (LogSink, Hand: self.__buf, self.__len,
self.__blen; Worker: self.__buf['data'], ['expected'], ['actual']):

  __init__         BUF = b'' ; LEN = None ; BLEN = len(struct.pack(F, 0)), F in '>I' '>L' (4 bytes,
                   big endian, unsigned): <c>_hlen = 4, <c>_init = mkF [] None.  No other method of
                   the class may mention BUF or LEN.
  dataReceived     BUF += data
                   length = BLEN if LEN is None else LEN                      <c>_need
                   while length <= len(BUF):   (any of < <= > >= on length and len(BUF))
                       if LEN is None: S.. else: S..                          <c>_iter: one iteration,
                       length = BLEN if LEN is None else LEN                  None = the test is false
                   return
     S (executed in order on the symbolic state; slices read the CURRENT buffer):
                   LEN = struct.unpack(F, <bytes>)[0]     Some (be32 <bytes>)
                   LEN = None
                   BUF = <bytes>
                   x = pickle.loads(<bytes>) | dawgie.pl.message.loads(<bytes>)
                                                           the payload is handed over (appended to the
                                                           output of the iteration)
                   any other statement that mentions neither BUF, LEN, BLEN, length, data nor
                   break/continue/return/while/for: the DELIVERY of x (self._process(msg),
                   self.__actual.handle(..), the try/do/loseConnection of Worker).  Its text is not
                   translated (Model/Frame.v `emit` + the closing/decodable oracles stand for it); its
                   sha256 is printed in the generated file.
     <bytes>       BUF | BUF[:e] | BUF[e:] | BUF[e:e]        firstn / skipn on Z.to_nat
     e             length | BLEN | e + e | integer literal
  the loop         = while_fuel <c>_iter with the fuel of Model/Frame.v (fuel_for)

  send             x = dumps(m) | pickle.dumps(m, ..)         the payload parameter
                   [return] <sink>(struct.pack(F, len(x)) + x)   enc32 (Z.of_nat (length x)) ++ x
                   with <sink> = s.sendall | self.transport.write
  receive(s)       buf = b''
                   while len(buf) < N: buf += s.recv(E)       while_recv (fun buf => ..) (fun buf => E)
                   length = struct.unpack(F, buf)[0]          be32 buf
                   return loads(buf)                          the payload
     N, E          integer literal | length | len(buf) | e - e | e + e
'''
import ast
import hashlib
import os
import sys

sys.path.insert(0, os.path.dirname(os.path.abspath(__file__)))
from pyfrag import Unsupported  # noqa: E402

REPO = os.environ.get('VERIF_REPO', '/repo')

PRELUDE = '''From Coq Require Import List ZArith Bool.
From DV Require Import Model.Frame Model.Client.
Import ListNotations.
Open Scope Z_scope.

(* `while <test>: <body>` of dataReceived: iter = test + one body, on fuel *)
Fixpoint while_fuel (iter : fstate -> option (fstate * list (list Z))) (fuel : nat) (s : fstate)
  : fstate * list (list Z) :=
  match fuel with
  | O => (s, [])
  | S f =>
      match iter s with
      | None => (s, [])
      | Some (s', out) => let '(s'', out') := while_fuel iter f s' in (s'', out ++ out')
      end
  end.

(* `while <cond buf>: buf += s.recv(<arg buf>)` of message.receive, on fuel
   (None = the loop does not end: EOF) *)
Fixpoint while_recv (cond : list Z -> bool) (arg : list Z -> Z) (fuel : nat) (buf : list Z) (s : sock)
  : option (list Z * sock) :=
  if cond buf then
    match fuel with
    | O => None
    | S f => let '(d, s') := recv (arg buf) s in while_recv cond arg f (buf ++ d) s'
    end
  else Some (buf, s).
'''

FORMATS = ('>I', '>L')
LOADS = ('pickle.loads', 'dawgie.pl.message.loads')

CLASSES = [
    # prefix, file, class, BUF, LEN, BLEN
    ('logsink', 'Python/dawgie/pl/logger/__init__.py', 'LogSink', 'self.__buf', 'self.__len', 'self.__blen'),
    ('worker', 'Python/dawgie/db/shelve/comms.py', 'Worker', "self.__buf['data']", "self.__buf['expected']",
     "self.__buf['actual']"),
    ('hand', 'Python/dawgie/pl/farm.py', 'Hand', 'self.__buf', 'self.__len', 'self.__blen'),
]


def sha_text(t):
    return hashlib.sha256(t.encode()).hexdigest()[:16]


def strip(stmts):
    return [s for s in stmts if not isinstance(s, ast.Pass)
            and not (isinstance(s, ast.Expr) and isinstance(s.value, ast.Constant))]


def is_blen_expr(e):
    '''len(struct.pack(F, 0))'''
    return (isinstance(e, ast.Call) and ast.unparse(e.func) == 'len' and len(e.args) == 1
            and isinstance(e.args[0], ast.Call) and ast.unparse(e.args[0].func) == 'struct.pack'
            and len(e.args[0].args) == 2 and isinstance(e.args[0].args[0], ast.Constant)
            and e.args[0].args[0].value in FORMATS and ast.unparse(e.args[0].args[1]) == '0')


class Receiver:
    def __init__(self, prefix, cls, BUF, LEN, BLEN):
        self.p, self.cls, self.BUF, self.LEN, self.BLEN = prefix, cls, BUF, LEN, BLEN
        self.n = 0

    # ---- __init__ ----------------------------------------------------------------
    def check_init(self):
        meths = {m.name: m for m in self.cls.body if isinstance(m, ast.FunctionDef)}
        if '__init__' not in meths or 'dataReceived' not in meths:
            raise Unsupported('%s: __init__ / dataReceived missing' % self.cls.name)
        found = {}
        for s in ast.walk(meths['__init__']):
            if isinstance(s, ast.Assign) and len(s.targets) == 1:
                t = ast.unparse(s.targets[0])
                if t in (self.BUF, self.LEN, self.BLEN):
                    found[t] = s.value
                elif isinstance(s.value, ast.Dict) and self.BUF.startswith(t + '['):
                    for k, v in zip(s.value.keys, s.value.values):
                        found['%s[%s]' % (t, ast.unparse(k))] = v
        if ast.unparse(found.get(self.BUF, ast.Constant(value=0))) != "b''":
            raise Unsupported('%s.__init__: %s is not initialised to b\'\'' % (self.cls.name, self.BUF))
        lv = found.get(self.LEN)
        if not (isinstance(lv, ast.Constant) and lv.value is None):
            raise Unsupported('%s.__init__: %s is not initialised to None' % (self.cls.name, self.LEN))
        if self.BLEN not in found or not is_blen_expr(found[self.BLEN]):
            raise Unsupported('%s.__init__: %s is not len(struct.pack(\'>I\', 0))' % (self.cls.name, self.BLEN))
        # nothing else touches the framing state
        base = self.BUF.split('[')[0]
        for name, m in meths.items():
            if name in ('__init__', 'dataReceived'):
                continue
            for n in ast.walk(m):
                if isinstance(n, ast.Attribute) and ast.unparse(n) in (base, self.LEN):
                    raise Unsupported('%s.%s touches the framing state' % (self.cls.name, name))
        for n in self.cls.body:
            if isinstance(n, (ast.Assign, ast.AnnAssign)):
                raise Unsupported('%s: class attribute %s' % (self.cls.name, ast.unparse(n)))
        return meths['dataReceived']

    # ---- expressions ----------------------------------------------------------------------
    def zexpr(self, e, st):
        t = ast.unparse(e)
        if t == 'length':
            if 'length' not in st:
                raise Unsupported('length is not bound')
            return st['length']
        if t == self.BLEN:
            return '(Z.of_nat %s_hlen)' % self.p
        if isinstance(e, ast.Constant) and type(e.value) is int and e.value >= 0:
            return '%d' % e.value
        if isinstance(e, ast.BinOp) and isinstance(e.op, ast.Add):
            return '(%s + %s)' % (self.zexpr(e.left, st), self.zexpr(e.right, st))
        raise Unsupported('index expression ' + t)

    def bytes_expr(self, e, st):
        t = ast.unparse(e)
        if t == self.BUF:
            return st['buf']
        if isinstance(e, ast.Subscript) and ast.unparse(e.value) == self.BUF and isinstance(e.slice, ast.Slice) \
                and e.slice.step is None:
            lo, hi = e.slice.lower, e.slice.upper
            r = st['buf']
            if hi is not None and lo is not None:
                # b[lo:hi] = first (hi - lo) of b[lo:]   (python clamps a negative width to 0: Z.to_nat does too)
                return '(firstn (Z.to_nat (%s - %s)) (skipn (Z.to_nat %s) %s))' % (
                    self.zexpr(hi, st), self.zexpr(lo, st), self.zexpr(lo, st), r)
            if hi is not None:
                return '(firstn (Z.to_nat %s) %s)' % (self.zexpr(hi, st), r)
            if lo is not None:
                return '(skipn (Z.to_nat %s) %s)' % (self.zexpr(lo, st), r)
        raise Unsupported('bytes expression ' + t)

    def need_expr(self, e):
        '''BLEN if LEN is None else LEN'''
        if ast.unparse(e) != '%s if %s is None else %s' % (self.BLEN, self.LEN, self.LEN):
            raise Unsupported('%s: length = %s' % (self.cls.name, ast.unparse(e)))

    def mentions_state(self, s):
        base = self.BUF.split('[')[0]
        for n in ast.walk(s):
            if isinstance(n, (ast.Break, ast.Continue, ast.Return, ast.While, ast.For, ast.Global, ast.Nonlocal)):
                return True
            if isinstance(n, ast.Attribute) and ast.unparse(n) in (base, self.LEN, self.BLEN):
                return True
            if isinstance(n, ast.Name) and n.id in ('length', 'data'):
                return True
        return False

    # ---- one branch of the loop body, executed symbolically -------------------------------------
    def run_branch(self, stmts, st, lets, deliveries):
        st = dict(st)
        loaded = None
        for s in strip(stmts):
            if isinstance(s, ast.Assign) and len(s.targets) == 1:
                tg, v = ast.unparse(s.targets[0]), s.value
                if tg == self.LEN:
                    if isinstance(v, ast.Constant) and v.value is None:
                        st['len'] = 'None'
                        continue
                    if isinstance(v, ast.Subscript) and ast.unparse(v.slice) == '0' and isinstance(v.value, ast.Call) \
                            and ast.unparse(v.value.func) == 'struct.unpack' and len(v.value.args) == 2 \
                            and isinstance(v.value.args[0], ast.Constant) and v.value.args[0].value in FORMATS:
                        st['len'] = '(Some (be32 %s))' % self.bytes_expr(v.value.args[1], st)
                        continue
                    raise Unsupported('%s = %s' % (tg, ast.unparse(v)))
                if tg == self.BUF:
                    self.n += 1
                    nm = 'buf%d_' % self.n
                    lets.append((nm, self.bytes_expr(v, st)))
                    st['buf'] = nm
                    continue
                if isinstance(s.targets[0], ast.Name) and isinstance(v, ast.Call) \
                        and ast.unparse(v.func) in LOADS and len(v.args) == 1 and not v.keywords:
                    if loaded is not None:
                        raise Unsupported('two loads in one iteration')
                    if tg in ('length', 'data'):
                        raise Unsupported('loads into %s' % tg)
                    loaded = tg
                    self.n += 1
                    nm = 'p%d_' % self.n
                    lets.append((nm, self.bytes_expr(v.args[0], st)))
                    st['out'] = st['out'] + [nm]
                    continue
            if self.mentions_state(s):
                raise Unsupported('%s.dataReceived: statement on the framing state: %s'
                                  % (self.cls.name, ast.unparse(s).split('\n')[0]))
            if loaded is None:
                raise Unsupported('%s.dataReceived: a statement before anything is decoded: %s'
                                  % (self.cls.name, ast.unparse(s).split('\n')[0]))
            deliveries.append(ast.unparse(s))
        return st

    def result(self, st, lets):
        t = 'Some (mkF %s %s, [%s])' % (st['buf'], st['len'], '; '.join(st['out']))
        for nm, v in reversed(lets):
            t = 'let %s := %s in\n      %s' % (nm, v, t)
        return t

    def translate(self):
        fn = self.check_init()
        if [a.arg for a in fn.args.args] != ['self', 'data']:
            raise Unsupported('dataReceived signature')
        body = strip(fn.body)
        if body and isinstance(body[-1], ast.Return) and body[-1].value is None:
            body = body[:-1]
        if len(body) != 3:
            raise Unsupported('%s.dataReceived: %d statements, the fragment knows 3 (+=, length =, while)'
                              % (self.cls.name, len(body)))
        a, b, w = body
        if not (isinstance(a, ast.AugAssign) and isinstance(a.op, ast.Add) and ast.unparse(a.target) == self.BUF
                and ast.unparse(a.value) == 'data'):
            raise Unsupported('%s.dataReceived: first statement %s' % (self.cls.name, ast.unparse(a)))
        if not (isinstance(b, ast.Assign) and ast.unparse(b.targets[0]) == 'length'):
            raise Unsupported('%s.dataReceived: second statement %s' % (self.cls.name, ast.unparse(b)))
        self.need_expr(b.value)
        if not isinstance(w, ast.While) or w.orelse:
            raise Unsupported('%s.dataReceived: third statement is not a while' % self.cls.name)
        wb = strip(w.body)
        if len(wb) != 2 or ast.unparse(wb[1]) != ast.unparse(b):
            raise Unsupported('%s.dataReceived: the loop must end by recomputing length' % self.cls.name)
        t = w.test
        if not (isinstance(t, ast.Compare) and len(t.ops) == 1):
            raise Unsupported('loop test ' + ast.unparse(t))
        sides = [ast.unparse(t.left), ast.unparse(t.comparators[0])]
        names = {'length': 'length_', 'len(%s)' % self.BUF: '(Z.of_nat (length (fbuf s)))'}
        if sorted(sides) != sorted(names):
            raise Unsupported('loop test ' + ast.unparse(t))
        op = {ast.LtE: '<=?', ast.Lt: '<?', ast.GtE: '>=?', ast.Gt: '>?'}.get(type(t.ops[0]))
        if not op:
            raise Unsupported('loop test ' + ast.unparse(t))
        test = '%s %s %s' % (names[sides[0]], op, names[sides[1]])
        iff = wb[0]
        if not (isinstance(iff, ast.If) and ast.unparse(iff.test) in ('%s is None' % self.LEN, '%s is not None' % self.LEN)
                and iff.orelse):
            raise Unsupported('%s.dataReceived: loop body is not `if %s is None: .. else: ..`' % (self.cls.name, self.LEN))
        none_b, some_b = (iff.body, iff.orelse) if ast.unparse(iff.test).endswith('is None') else (iff.orelse, iff.body)
        deliveries = []
        st0 = {'buf': '(fbuf s)', 'length': 'length_', 'out': []}
        l1, l2 = [], []
        r_none = self.result(self.run_branch(none_b, dict(st0, len='None'), l1, deliveries), l1)
        r_some = self.result(self.run_branch(some_b, dict(st0, len='(Some len_)'), l2, deliveries), l2)
        p = self.p
        out = ['(* class %s: delivery statements (not translated) sha256/16 %s *)'
               % (self.cls.name, sha_text('\n'.join(deliveries))),
               'Definition %s_hlen : nat := 4.' % p,
               'Definition %s_init : fstate := mkF [] None.' % p,
               'Definition %s_need (s : fstate) : Z :=\n  match flen s with None => Z.of_nat %s_hlen | Some len_ => len_ end.' % (p, p),
               'Definition %s_iter (s : fstate) : option (fstate * list (list Z)) :=\n'
               '  let length_ := %s_need s in\n'
               '  if %s then\n    match flen s with\n    | None =>\n      %s\n    | Some len_ =>\n      %s\n    end\n  else None.'
               % (p, p, test, r_none, r_some),
               'Definition %s_feed (s : fstate) (data : list Z) : fstate * list (list Z) :=\n'
               '  let s0 := mkF (fbuf s ++ data) (flen s) in while_fuel %s_iter (fuel_for s0) s0.' % (p, p), '']
        return out


# ---- senders ------------------------------------------------------------------------------------
def sender(fn, gname, sink, dumps):
    body = strip(fn.body)
    if body and isinstance(body[-1], ast.Return) and body[-1].value is None:
        body = body[:-1]
    if len(body) != 2:
        raise Unsupported('%s: %d statements, the fragment knows 2' % (fn.name, len(body)))
    a, b = body
    if not (isinstance(a, ast.Assign) and isinstance(a.targets[0], ast.Name) and isinstance(a.value, ast.Call)
            and ast.unparse(a.value.func) in dumps):
        raise Unsupported('%s: %s' % (fn.name, ast.unparse(a)))
    x = a.targets[0].id
    call = b.value if isinstance(b, (ast.Return, ast.Expr)) else None
    if not (isinstance(call, ast.Call) and ast.unparse(call.func) == sink and len(call.args) == 1 and not call.keywords):
        raise Unsupported('%s: %s' % (fn.name, ast.unparse(b)))
    e = call.args[0]
    if not (isinstance(e, ast.BinOp) and isinstance(e.op, ast.Add)):
        raise Unsupported('%s: bytes sent: %s' % (fn.name, ast.unparse(e)))
    parts = []
    for side in (e.left, e.right):
        if isinstance(side, ast.Name) and side.id == x:
            parts.append('p_')
        elif isinstance(side, ast.Call) and ast.unparse(side.func) == 'struct.pack' and len(side.args) == 2 \
                and isinstance(side.args[0], ast.Constant) and side.args[0].value in FORMATS \
                and ast.unparse(side.args[1]) == 'len(%s)' % x:
            parts.append('enc32 (Z.of_nat (length p_))')
        else:
            raise Unsupported('%s: bytes sent: %s' % (fn.name, ast.unparse(side)))
    return 'Definition %s (p_ : list Z) : list Z := %s ++ %s.' % (gname, parts[0], parts[1])


# ---- message.receive ----------------------------------------------------------------------------
def rexpr(e, env):
    t = ast.unparse(e)
    if isinstance(e, ast.Constant) and type(e.value) is int and e.value >= 0:
        return '%d' % e.value
    if isinstance(e, ast.Name) and e.id in env and env[e.id] == 'Z':
        return e.id + '_'
    if t == 'len(buf)' and env.get('buf') == 'bytes':
        return '(Z.of_nat (length buf))'
    if isinstance(e, ast.BinOp) and isinstance(e.op, (ast.Add, ast.Sub)):
        return '(%s %s %s)' % (rexpr(e.left, env), '+' if isinstance(e.op, ast.Add) else '-', rexpr(e.right, env))
    raise Unsupported('receive: expression ' + t)


def receive(fn):
    if [a.arg for a in fn.args.args] != ['s']:
        raise Unsupported('receive signature')
    body = strip(fn.body)
    env = {}
    k = 0
    text = []          # (kind, payload)
    for s in body:
        if isinstance(s, ast.Assign) and ast.unparse(s) == "buf = b''":
            env['buf'] = 'bytes'
            k += 1
            text.append(('reset', None))
        elif isinstance(s, ast.While) and not s.orelse:
            wb = strip(s.body)
            t = s.test
            if not (env.get('buf') == 'bytes' and len(wb) == 1 and isinstance(wb[0], ast.AugAssign)
                    and isinstance(wb[0].op, ast.Add) and ast.unparse(wb[0].target) == 'buf'
                    and isinstance(wb[0].value, ast.Call) and ast.unparse(wb[0].value.func) == 's.recv'
                    and len(wb[0].value.args) == 1 and not wb[0].value.keywords
                    and isinstance(t, ast.Compare) and len(t.ops) == 1):
                raise Unsupported('receive: loop ' + ast.unparse(s).split('\n')[0])
            op = {ast.Lt: '<?', ast.LtE: '<=?', ast.Gt: '>?', ast.GtE: '>=?'}.get(type(t.ops[0]))
            if not op:
                raise Unsupported('receive: loop test ' + ast.unparse(t))
            cond = '(fun buf => %s %s %s)' % (rexpr(t.left, env), op, rexpr(t.comparators[0], env))
            arg = '(fun buf => %s)' % rexpr(wb[0].value.args[0], env)
            text.append(('loop', (cond, arg)))
        elif isinstance(s, ast.Assign) and isinstance(s.targets[0], ast.Name) and s.targets[0].id != 'buf' \
                and isinstance(s.value, ast.Subscript) and ast.unparse(s.value.slice) == '0' \
                and isinstance(s.value.value, ast.Call) and ast.unparse(s.value.value.func) == 'struct.unpack' \
                and len(s.value.value.args) == 2 and isinstance(s.value.value.args[0], ast.Constant) \
                and s.value.value.args[0].value in FORMATS and ast.unparse(s.value.value.args[1]) == 'buf':
            env[s.targets[0].id] = 'Z'
            text.append(('unpack', s.targets[0].id + '_'))
        elif isinstance(s, ast.Return) and s is body[-1] and ast.unparse(s.value) == 'loads(buf)':
            text.append(('return', None))
        else:
            raise Unsupported('receive: statement ' + ast.unparse(s).split('\n')[0])
    if not text or text[-1][0] != 'return':
        raise Unsupported('receive: no return loads(buf)')
    # build the term from the end: variables buf, s
    term = 'Some (buf, s)'
    for kind, pl in reversed(text[:-1]):
        if kind == 'reset':
            term = 'let buf := @nil Z in\n  %s' % term
        elif kind == 'unpack':
            term = 'let %s := be32 buf in\n  %s' % (pl, term)
        else:
            term = ('match while_recv %s %s (length s) buf s with\n  | None => None\n  | Some (buf, s) =>\n  %s\n  end'
                    % (pl[0], pl[1], term))
    return 'Definition message_receive (s : sock) : option (list Z * sock) :=\n  %s.' % term


def find_class(tree, name):
    for n in tree.body:
        if isinstance(n, ast.ClassDef) and n.name == name:
            return n
    raise Unsupported('class %s not found' % name)


def main():
    out = ['(* GENERATED by tools/translate/frame2coq.py -- do not edit.',
           '   sources: dawgie/pl/message.py (send, receive), dawgie/db/shelve/comms.py (Worker),',
           '   dawgie/pl/logger/__init__.py (LogSink), dawgie/pl/farm.py (Hand) *)', PRELUDE]
    trees = {}

    def tree(rel):
        if rel not in trees:
            trees[rel] = ast.parse(open(os.path.join(REPO, rel)).read())
        return trees[rel]
    msg = {n.name: n for n in tree('Python/dawgie/pl/message.py').body if isinstance(n, ast.FunctionDef)}
    out += ['(* dawgie.pl.message.send *)', sender(msg['send'], 'message_send', 's.sendall', ('dumps',)), '']
    wk = find_class(tree('Python/dawgie/db/shelve/comms.py'), 'Worker')
    wm = {m.name: m for m in wk.body if isinstance(m, ast.FunctionDef)}
    out += ['(* dawgie.db.shelve.comms.Worker._send *)',
            sender(wm['_send'], 'worker_send', 'self.transport.write', ('pickle.dumps',)), '']
    for prefix, rel, cname, B, L, BL in CLASSES:
        out += ['(* %s %s.dataReceived *)' % (rel, cname)]
        out += Receiver(prefix, find_class(tree(rel), cname), B, L, BL).translate()
    out += ['(* dawgie.pl.message.receive *)', receive(msg['receive']), '']
    sys.stdout.write('\n'.join(out))


if __name__ == '__main__':
    try:
        main()
    except Unsupported as e:
        sys.stderr.write('frame2coq: unsupported source construct: %s\n' % e)
        sys.exit(2)
    except (KeyError, IndexError, SyntaxError, AttributeError, TypeError) as e:
        sys.stderr.write('frame2coq: source shape changed: %r\n' % e)
        sys.exit(2)
