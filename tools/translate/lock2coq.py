'''lock2coq.py -- fail-closed translation of the database-lock handlers of
dawgie/db/shelve/comms.py class Worker (and dawgie/context.py lock_db /
unlock_db) to Gallina (coq/Gen/LockGen.v).  Fragment: pyfrag.py + pyfrag_fx.py.

One connection (one Worker object) and the global lock bit are the tuple

    lkst = (lock, has, running, stopped, lost, closed, timers, out)
            |     |    |        |        |     |       |       what the peer sees, in order:
            |     |    |        |        |     |       |       SStatus m = _send(Mutex m), SBool b = _send(b),
            |     |    |        |        |     |       |       SClose = transport.loseConnection()
            |     |    |        |        |     |       pending reactor.callLater(1, self.__looping_call.stop)
            |     |    |        |        |     transport.loseConnection() was called
            |     |    |        |        self.__connection_lost
            |     |    |        self.__looping_call_stopped
            |     |    self.__looping_call.running        (twisted LoopingCall)
            |     self.__has_lock
            dawgie.context.db_lock

and every translated function maps the tuple to the new tuple:

    context.lock_db / unlock_db            lock_db, unlock_db
    Worker._lock_db / _unlock_db           w_lock_db, w_unlock_db
    Worker._get_db_lock_status             get_db_lock_status : lkst -> mutex
    Worker._do_acquire                     do_acquire        (the body of the LoopingCall)
    Worker._do_release                     do_release
    Worker.connectionLost                  connectionLost
    Worker.do, branch Func.acquire         request_acquire : lkst -> option lkst (None = the python raises)
    Worker.do, branch Func.release         request_release
    Worker.dataReceived                    closes_after_acquire / closes_after_release (is the request's
                                           func outside the list that keeps the connection open; the
                                           statement around self.do(request) is pinned by its text)
    Worker.__init__                        init_has, init_stopped, init_lost

Declared here (the world outside the translated text):
    self.__looping_call.start(3)   twisted LoopingCall.start(interval, now=True): asserts not running
                                   (AssertionError = None), sets running, calls the function at once
                                   = lc_start do_acquire; checked: __init__ builds the LoopingCall on
                                   self._do_acquire and nothing else binds it
    reactor.callLater(1, self.__looping_call.stop)     timers + 1
    self._send(x) / self.transport.loseConnection()    appended to `out` (loseConnection sets closed)
    neutral: logging calls with plain arguments, DBI().task_engine.add_task(self.__id_name,
             dawgie.db.lockview.LockRequest.<x>) (lock-view bookkeeping), self.__id_name = request.value,
             pass
The private attributes and context.db_lock must not be bound anywhere else in the package.
Anything else: exit 2.'''
import ast
import hashlib
import os
import re
import sys

sys.path.insert(0, os.path.dirname(os.path.abspath(__file__)))
import pyfrag                                        # noqa: E402
from pyfrag import Unsupported                        # noqa: E402
from pyfrag_fx import TrX, is_log_call                # noqa: E402

REPO = os.environ.get('VERIF_REPO', '/repo')
PKG = os.path.join(REPO, 'Python', 'dawgie')

STATE = [('lock', 'bool'), ('has', 'bool'), ('running', 'bool'), ('stopped', 'bool'), ('lost', 'bool'),
         ('closed', 'bool'), ('timers', 'nat'), ('out', ('list', 'sent'))]
NAMES = [n for n, _ in STATE]
pyfrag.GTYPE.update({'mutex': 'mutex', 'sent': 'sent'})

ATTR = {'dawgie.context.db_lock': 'lock', 'self.__has_lock': 'has',
        'self.__looping_call.running': 'running', 'self.__looping_call_stopped': 'stopped',
        'self.__connection_lost': 'lost'}

DATA_RECEIVED_PIN = '''if request.func not in [%s]:
    try:
        self.do(request)
    except ImportError:
        log.excpetion('Had a problem unpickling an input so aborting connection and moving forward.')
    finally:
        self.transport.loseConnection()
else:
    try:
        self.do(request)
    except ImportError:
        log.excpetion('Had a problem unpickling an input so aborting connection and moving forward.')
        self.transport.loseConnection()
        pass
    pass'''


def sha(src, node):
    return hashlib.sha256(ast.get_source_segment(src, node).encode()).hexdigest()[:16]


def neutral(s):
    if is_log_call(s) or isinstance(s, ast.Pass):
        return True
    txt = ast.unparse(s)
    if re.fullmatch(r'DBI\(\)\.task_engine\.add_task\(self\.__id_name, dawgie\.db\.lockview\.LockRequest\.\w+\)', txt):
        return True
    if txt == 'self.__id_name = request.value':
        return True
    return False


def eff_send(tr, call, env):
    if len(call.args) != 1 or call.keywords:
        raise Unsupported('_send arguments')
    t, ty = tr.expr(call.args[0], env)
    if ty == 'mutex':
        return [('out', '(out_ ++ [SStatus %s])' % t)]
    if ty == 'bool':
        return [('out', '(out_ ++ [SBool %s])' % t)]
    raise Unsupported('_send of %r' % (ty,))


def main():
    # ---- enums.Mutex ---------------------------------------------------------
    esrc = open(os.path.join(PKG, 'db/shelve/enums.py')).read()
    etree = ast.parse(esrc)
    mu = [n for n in etree.body if isinstance(n, ast.ClassDef) and n.name == 'Mutex']
    if len(mu) != 1 or [ast.unparse(b) for b in mu[0].bases] != ['enum.IntEnum']:
        raise Unsupported('enums.Mutex')
    members = []
    for s in mu[0].body:
        if isinstance(s, ast.Assign) and isinstance(s.value, ast.Constant) and type(s.value.value) is int:
            members.append((s.targets[0].id, s.value.value))
        elif not isinstance(s, ast.Pass) and not (isinstance(s, ast.Expr) and isinstance(s.value, ast.Constant)):
            raise Unsupported('Mutex body ' + ast.unparse(s))
    if sorted(n for n, _ in members) != ['lock', 'unlock'] or len({v for _, v in members}) != 2:
        raise Unsupported('Mutex members %r' % members)
    fu = [n for n in etree.body if isinstance(n, ast.ClassDef) and n.name == 'Func']
    fvals = {}
    for s in fu[0].body:
        if isinstance(s, ast.Assign) and isinstance(s.value, ast.Constant):
            fvals[s.targets[0].id] = s.value.value
    if len(set(fvals.values())) != len(fvals) or 'acquire' not in fvals or 'release' not in fvals:
        raise Unsupported('Func members %r' % fvals)

    out = ['(* GENERATED by tools/translate/lock2coq.py from Python/dawgie/{db/shelve/comms.py,db/shelve/enums.py,'
           'context.py} -- do not edit *)',
           'From Coq Require Import List Bool Arith.', 'Import ListNotations.',
           '(* ---- fixed prelude of the translation ---- *)',
           '(* enums.Mutex %r *)' % (members,),
           'Inductive mutex : Set := Mu_lock | Mu_unlock.',
           'Definition mutex_eqb (a b : mutex) : bool :=',
           '  match a, b with Mu_lock, Mu_lock => true | Mu_unlock, Mu_unlock => true | _, _ => false end.',
           'Inductive sent : Set := SStatus (m : mutex) | SBool (b : bool) | SClose.',
           'Definition lkst : Type := (bool * bool * bool * bool * bool * bool * nat * list sent)%type.',
           '(* twisted.internet.task.LoopingCall.start(interval, now=True): assert not running; running = True;',
           '   the function is called at once *)',
           'Definition lc_start (f : lkst -> lkst) (st : lkst) : option lkst :=',
           "  let '(lock_, has_, running_, stopped_, lost_, closed_, timers_, out_) := st in",
           '  if running_ then None else Some (f (lock_, has_, true, stopped_, lost_, closed_, timers_, out_)).',
           '(* ---- translated functions ---- *)']

    # ---- context.lock_db / unlock_db -----------------------------------------
    csrc = open(os.path.join(PKG, 'context.py')).read()
    ctree = ast.parse(csrc)
    consts = {'Mutex.lock': ('Mu_lock', 'mutex'), 'Mutex.unlock': ('Mu_unlock', 'mutex')}
    tr = TrX(neutral=neutral, ATTR=ATTR, STATE=NAMES, CONSTS=consts, EQB={'mutex': 'mutex_eqb'})

    def whole(fn, gname, want_args):
        a = fn.args
        if [x.arg for x in a.args] != want_args or a.vararg or a.kwarg or a.kwonlyargs or a.defaults:
            raise Unsupported('%s signature %r' % (fn.name, [x.arg for x in a.args]))
        text, ty, raises = tr.function(fn, gname, [], state_ret=NAMES, state=STATE)
        return text, raises

    for nm in ('lock_db', 'unlock_db'):
        fns = [n for n in ctree.body if isinstance(n, ast.FunctionDef) and n.name == nm]
        if len(fns) != 1 or fns[0].decorator_list:
            raise Unsupported('context.%s' % nm)
        text, raises = whole(fns[0], nm, [])
        if raises:
            raise Unsupported(nm + ' may raise')
        out += ['(* context.%s sha256=%s *)' % (nm, sha(csrc, fns[0])), text]
        tr.STATEFUL['dawgie.context.%s' % nm] = (nm, False)
    # nothing else binds db_lock
    for root, _, files in os.walk(PKG):
        for f in files:
            if not f.endswith('.py'):
                continue
            p = os.path.join(root, f)
            t = ast.parse(open(p).read())
            for n in ast.walk(t):
                tg = []
                if isinstance(n, ast.Assign):
                    tg = n.targets
                elif isinstance(n, (ast.AugAssign, ast.AnnAssign)):
                    tg = [n.target]
                elif isinstance(n, ast.Global) and 'db_lock' in n.names:
                    raise Unsupported('%s: global db_lock' % p)
                for x in tg:
                    for y in ast.walk(x):
                        if (isinstance(y, ast.Attribute) and y.attr == 'db_lock') or \
                                (isinstance(y, ast.Name) and y.id == 'db_lock'):
                            where = next((fn.name for fn in ast.walk(t) if isinstance(fn, ast.FunctionDef)
                                          and n in list(ast.walk(fn))), None)
                            if not (p.endswith('dawgie/context.py') and where in ('lock_db', 'unlock_db', None)):
                                raise Unsupported('%s:%d binds db_lock' % (p, n.lineno))
                if isinstance(n, ast.Call) and ast.unparse(n.func) in ('setattr',) and 'db_lock' in ast.unparse(n):
                    raise Unsupported('%s: setattr db_lock' % p)
    mod_default = [s for s in ctree.body if isinstance(s, ast.Assign) and ast.unparse(s.targets[0]) == 'db_lock']
    if len(mod_default) != 1 or ast.unparse(mod_default[0].value) != 'False':
        raise Unsupported('context.db_lock default')

    # ---- comms.Worker ---------------------------------------------------------
    src = open(os.path.join(PKG, 'db/shelve/comms.py')).read()
    tree = ast.parse(src)
    cls = [n for n in tree.body if isinstance(n, ast.ClassDef) and n.name == 'Worker']
    if len(cls) != 1:
        raise Unsupported('class Worker')
    cls = cls[0]
    fns = {}
    for n in cls.body:
        if isinstance(n, ast.FunctionDef):
            if n.name in fns:
                raise Unsupported('Worker.%s defined twice' % n.name)
            fns[n.name] = n
        elif not (isinstance(n, ast.Pass) or (isinstance(n, ast.Expr) and isinstance(n.value, ast.Constant))):
            raise Unsupported('Worker body statement ' + ast.unparse(n)[:60])
    for nm, fn in fns.items():
        deco = [ast.unparse(d) for d in fn.decorator_list]
        if deco != (['staticmethod'] if nm == '_get_db_lock_status' else []):
            raise Unsupported('Worker.%s decorators %r' % (nm, deco))
    for nm in ('__getattr__', '__getattribute__', '__setattr__'):
        if nm in fns:
            raise Unsupported('Worker defines ' + nm)
    # where the private attributes are bound
    allowed = {'__has_lock': {'__init__', '_lock_db', '_unlock_db'},
               '__looping_call_stopped': {'__init__', '_do_acquire', 'connectionLost'},
               '__connection_lost': {'__init__', 'connectionLost'},
               '__looping_call': {'__init__'}}
    for nm, fn in fns.items():
        for n in ast.walk(fn):
            tg = []
            if isinstance(n, ast.Assign):
                tg = n.targets
            elif isinstance(n, (ast.AugAssign, ast.AnnAssign)):
                tg = [n.target]
            elif isinstance(n, ast.Delete):
                tg = n.targets
            for x in tg:
                for y in ast.walk(x):
                    if isinstance(y, ast.Attribute) and y.attr in allowed and nm not in allowed[y.attr]:
                        raise Unsupported('Worker.%s binds self.%s' % (nm, y.attr))
                    if isinstance(y, ast.Attribute) and y.attr == 'running':
                        raise Unsupported('Worker.%s binds .running' % nm)
            if isinstance(n, ast.Call) and ast.unparse(n.func) in ('setattr', 'delattr', 'self.__dict__.update'):
                raise Unsupported('Worker.%s uses %s' % (nm, ast.unparse(n.func)))
            # the LoopingCall is only started / stopped where the translation knows
            if isinstance(n, ast.Attribute) and ast.unparse(n) in ('self.__looping_call.start',
                                                                    'self.__looping_call.stop',
                                                                    'self.__looping_call.reset'):
                if (n.attr, nm) not in (('start', 'do'), ('stop', '_do_acquire'), ('stop', 'connectionLost')):
                    raise Unsupported('Worker.%s touches %s' % (nm, ast.unparse(n)))
    # other classes / functions of the module must not reach into a Worker's lock state
    for n in ast.walk(tree):
        if isinstance(n, ast.Attribute) and n.attr in ('_Worker__has_lock', '_Worker__looping_call',
                                                       '_Worker__looping_call_stopped', '_Worker__connection_lost'):
            raise Unsupported('mangled access to ' + n.attr)
    init = [ast.unparse(s) for s in fns['__init__'].body]
    inits = {}
    for want, key in (('self.__has_lock = ', 'has'), ('self.__looping_call_stopped = ', 'stopped'),
                      ('self.__connection_lost = ', 'lost')):
        hit = [s for s in init if s.startswith(want)]
        if len(hit) != 1 or hit[0][len(want):] not in ('True', 'False'):
            raise Unsupported('__init__: %r' % hit)
        inits[key] = hit[0][len(want):].lower()
    if 'self.__looping_call = twisted.internet.task.LoopingCall(self._do_acquire)' not in init:
        raise Unsupported('__init__ no longer builds LoopingCall(self._do_acquire)')
    out.append('(* Worker.__init__ sha256=%s *)' % sha(src, fns['__init__']))
    for k in ('has', 'stopped', 'lost'):
        out.append('Definition init_%s : bool := %s.' % (k, inits[k]))

    def method(name, gname, args=('self',), stateful_key=None, may_raise=False):
        fn = fns[name]
        text, raises = whole(fn, gname, list(args))
        if raises != may_raise:
            raise Unsupported('%s: raising behaviour changed' % name)
        out.append('(* Worker.%s sha256=%s *)' % (name, sha(src, fn)))
        out.append(text)
        if stateful_key:
            tr.STATEFUL[stateful_key] = (gname, raises)

    method('_lock_db', 'w_lock_db', stateful_key='self._lock_db')
    method('_unlock_db', 'w_unlock_db', stateful_key='self._unlock_db')
    # _get_db_lock_status: a value, not a new state
    fn = fns['_get_db_lock_status']
    if fn.args.args or fn.args.vararg or fn.args.kwarg:
        raise Unsupported('_get_db_lock_status signature')
    text, ty, raises = tr.function(fn, 'get_db_lock_status', [], ret='mutex', state=STATE)
    if raises:
        raise Unsupported('_get_db_lock_status may raise')
    out += ['(* Worker._get_db_lock_status sha256=%s *)' % sha(src, fn), text]
    tr.PURE['self._get_db_lock_status'] = ('get_db_lock_status', 'mutex')
    tr.EFFECTS['twisted.internet.reactor.callLater(1, self.__looping_call.stop)'] = \
        lambda t, c, env: [('timers', '(S timers_)')]
    tr.EFFECTS['self._send'] = eff_send
    tr.EFFECTS['self.transport.loseConnection()'] = \
        lambda t, c, env: [('closed', 'true'), ('out', '(out_ ++ [SClose])')]
    method('_do_acquire', 'do_acquire', stateful_key='self._do_acquire')
    method('_do_release', 'do_release', stateful_key='self._do_release')
    method('connectionLost', 'connectionLost', args=('self', 'reason'))

    # ---- Worker.do: the branches of Func.acquire and Func.release --------------
    do = fns['do']
    if [x.arg for x in do.args.args] != ['self', 'request']:
        raise Unsupported('do signature')
    body = pyfrag.strip_doc(do.body)
    chain = [s for s in body if not isinstance(s, ast.Return)]
    if len(chain) != 1 or not isinstance(chain[0], ast.If) or any(
            isinstance(s, ast.Return) and s.value is not None for s in body) or body.index(chain[0]) != 0:
        raise Unsupported('Worker.do is no longer one if/elif chain')
    branches, node = {}, chain[0]
    while True:
        t = node.test
        if not (isinstance(t, ast.Compare) and len(t.ops) == 1 and isinstance(t.ops[0], ast.Eq)
                and ast.unparse(t.left) == 'request.func' and ast.unparse(t.comparators[0]).startswith('Func.')):
            raise Unsupported('Worker.do test ' + ast.unparse(t))
        f = ast.unparse(t.comparators[0])[5:]
        if f in branches or f not in fvals:
            raise Unsupported('Worker.do: Func.%s twice / unknown' % f)
        branches[f] = node.body
        if len(node.orelse) == 1 and isinstance(node.orelse[0], ast.If):
            node = node.orelse[0]
        else:
            break
    tr.STATEFUL['self.__looping_call.start(3)'] = ('lc_start do_acquire', True)
    for f, gname, may_raise in (('acquire', 'request_acquire', True), ('release', 'request_release', False)):
        if f not in branches:
            raise Unsupported('Worker.do has no branch for Func.' + f)
        f2 = ast.FunctionDef(name=gname, args=ast.arguments(posonlyargs=[], args=[ast.arg('self')], kwonlyargs=[],
                                                            kw_defaults=[], defaults=[]),
                             body=list(branches[f]), decorator_list=[])
        text, ty, raises = tr.function(f2, gname, [], state_ret=NAMES, state=STATE)
        if raises != may_raise:
            raise Unsupported('%s: raising behaviour changed' % gname)
        out.append('(* Worker.do sha256=%s : the branch of Func.%s *)' % (sha(src, do), f))
        out.append(text)

    # ---- Worker.dataReceived: which requests are followed by loseConnection ------
    dr = fns['dataReceived']
    hits = [n for n in ast.walk(dr) if isinstance(n, ast.If) and ast.unparse(n.test).startswith('request.func not in')]
    calls = [n for n in ast.walk(dr) if isinstance(n, ast.Call) and ast.unparse(n.func) == 'self.do']
    if len(hits) != 1 or len(calls) != 2:
        raise Unsupported('dataReceived: the dispatch of self.do changed')
    lst = hits[0].test.comparators[0]
    if not isinstance(lst, ast.List) or not all(ast.unparse(x).startswith('Func.') and ast.unparse(x)[5:] in fvals
                                                for x in lst.elts):
        raise Unsupported('dataReceived: list of functions that keep the connection open')
    if ast.unparse(hits[0]) != DATA_RECEIVED_PIN % ', '.join(ast.unparse(x) for x in lst.elts):
        raise Unsupported('dataReceived: the statement around self.do(request) changed')
    keep = [ast.unparse(x)[5:] for x in lst.elts]
    out.append('(* Worker.dataReceived sha256=%s : loseConnection() follows every request whose func is not in %r *)'
               % (sha(src, dr), keep))
    out.append('Definition closes_after_acquire : bool := %s.' % ('false' if 'acquire' in keep else 'true'))
    out.append('Definition closes_after_release : bool := %s.' % ('false' if 'release' in keep else 'true'))
    out.append('Definition lose_connection (st_ : lkst) : lkst :=\n'
               "  let '(lock_, has_, running_, stopped_, lost_, closed_, timers_, out_) := st_ in\n"
               '  (lock_, has_, running_, stopped_, lost_, true, timers_, out_ ++ [SClose]).')
    print('\n'.join(out))


if __name__ == '__main__':
    try:
        main()
    except Unsupported as e:
        sys.stderr.write('lock2coq: unsupported source construct: %s\n' % e)
        sys.exit(2)
    except (KeyError, IndexError, SyntaxError, AttributeError, TypeError, OSError) as e:
        sys.stderr.write('lock2coq: source shape changed: %r\n' % e)
        sys.exit(2)
