'''pyfrag.py -- the shared core of the function translators (util2coq.py,
fifo2coq.py, farm2coq.py): a typed, fail-closed translation of a small
statement/expression fragment of Python to Gallina text.

The fragment (anything else raises Unsupported; the scripts then exit 2):

  statements   x = e            rebinding (a `let`)
               a, b = s.split(<str const>)   exactly one occurrence or raise
               x = int(s) / x = <Class>(s)   declared raising primitives
               x.m(args)        in-place mutation declared in MUTATORS
                                (list.append, dict.update, set.add, ...) = a
                                rebinding of x; some may raise (list.remove)
               self.m(args)     call of an already translated method of the
                                same class = rebinding of the state variables
               if t: ... else:  both branches rebind variables; joined by a
                                `let '(v1, .., vn) := if t then .. else ..`
                                (a variable that is None on one side and T on
                                the other becomes an option)
               for x in e: ...  fold_left over the rebound variables
               return e         last statement only
               pass, docstrings
  tests        x is None / x is not None / x (optional object or list):
               a `match` that refines the type of x in the branch; any
               boolean expression otherwise
  expressions  constants, names, +, ==, !=, in, not in, and/or/not, len, str,
               t[0], t[1], calls declared in FUNCS/METHODS, lambda inside
               dict(filter(lambda.., d.items())), `a if t else b`

A statement that may raise makes the enclosing blocks option-valued
(None = the python raises).  Python variable v is the Gallina variable v_.
'''
import ast


class Unsupported(Exception):
    pass


def mangle(v):
    return v.lstrip('_') + '_'


def codes(s):
    return '[' + '; '.join(str(ord(c)) for c in s) + ']'


def opt(t):
    return t if isinstance(t, tuple) and t[0] == 'opt' else ('opt', t)


def join_type(a, b):
    if a == b:
        return a
    if a == 'none':
        return opt(b)
    if b == 'none':
        return opt(a)
    if opt(a) == b:
        return b
    if opt(b) == a:
        return a
    raise Unsupported('cannot join types %r and %r' % (a, b))


def unify(a, b):
    '''the common type of the two branches of a conditional expression'''
    if a == b:
        return a
    if a == ('list', 'any') and isinstance(b, tuple) and b[0] == 'list':
        return b
    if b == ('list', 'any') and isinstance(a, tuple) and a[0] == 'list':
        return a
    raise Unsupported('branches of different types %r / %r' % (a, b))


def coerce(text, have, want):
    if have == want:
        return text
    if have == 'none' and isinstance(want, tuple) and want[0] == 'opt':
        return 'None'
    if isinstance(want, tuple) and want[0] == 'opt' and want[1] == have:
        return '(Some %s)' % text
    raise Unsupported('cannot use a %r where a %r is expected (%s)' % (have, want, text))


GTYPE = {'str': 'name', 'nat': 'nat', 'Z': 'Z', 'bool': 'bool', 'ver': 'ver',
         'tbl': 'tbl', 'entry': '(name * nat)', 'natset': '(list nat)', 'ustate': 'ustate', 'msg': 'msg'}


def gtype(t):
    if isinstance(t, tuple):
        if t[0] == 'opt':
            return '(option %s)' % gtype(t[1])
        if t[0] == 'list':
            return '(list %s)' % gtype(t[1])
        if t[0] == 'tuple':
            return '(' + ' * '.join(gtype(x) for x in t[1]) + ')'
    if t in GTYPE:
        return GTYPE[t]
    raise Unsupported('no Gallina type for %r' % (t,))


def assigned(stmts):
    '''python names (re)bound by the statements, in order of first binding'''
    out = []

    def add(n):
        if n not in out:
            out.append(n)

    for s in stmts:
        if isinstance(s, ast.Assign):
            for t in s.targets:
                for n in ([t] if isinstance(t, ast.Name) else getattr(t, 'elts', [t])):
                    if isinstance(n, ast.Name):
                        add(n.id)
                    elif isinstance(n, ast.Attribute):
                        add(ast.unparse(n))
                    else:
                        raise Unsupported('assignment target ' + ast.dump(n))
        elif isinstance(s, ast.AugAssign):
            add(ast.unparse(s.target))
        elif isinstance(s, ast.Expr) and isinstance(s.value, ast.Call) \
                and isinstance(s.value.func, ast.Attribute):
            add(ast.unparse(s.value.func.value))
        elif isinstance(s, ast.If):
            for n in assigned(s.body) + assigned(s.orelse):
                add(n)
        elif isinstance(s, ast.For):
            for n in assigned(s.body):
                add(n)
    return out


class Tr:
    '''prims:
         FUNCS    name -> ([(param type, default text or None)...], result type, raises)
         METHODS  (receiver type, attr) -> f(recv text, [(arg text, arg type)...]) -> (text, type)
         MUTATORS (receiver type, attr) -> f(recv text, [(arg text, type)...]) -> (text, raises)
         RAISING  callee name -> f([(arg text, type)...]) -> (text of an option, type)
         SELF     attr -> (names of the state variables, raises)   # self.m(..) calls
         ATTR     dotted python text -> env name  (self.__order -> "order")
    '''

    def __init__(self, FUNCS=None, METHODS=None, MUTATORS=None, RAISING=None,
                 SELF=None, ATTR=None, STATE=()):
        self.FUNCS = {} if FUNCS is None else FUNCS
        self.METHODS = {} if METHODS is None else METHODS
        self.MUTATORS = {} if MUTATORS is None else MUTATORS
        self.RAISING = {} if RAISING is None else RAISING
        self.SELF = {} if SELF is None else SELF
        self.ATTR = {} if ATTR is None else ATTR
        self.STATE = list(STATE)
        self.MEM = 'mem'
        self.FNAME = {}          # python callee -> Gallina name when they differ
        self.FIELDS = {}         # (receiver type, attribute) -> (projection, type)

    # ---- names ---------------------------------------------------------------
    def key(self, e):
        '''env key of a variable-like expression, or None'''
        if isinstance(e, ast.Name):
            return e.id
        if isinstance(e, ast.Attribute):
            return self.ATTR.get(self.norm(ast.unparse(e)))
        return None

    @staticmethod
    def norm(txt):
        # name mangling of private attributes inside a class body
        return txt

    # ---- expressions ---------------------------------------------------------
    def expr(self, e, env):
        k = self.key(e)
        if k is not None:
            if k not in env:
                raise Unsupported('variable %s may be unbound here' % k)
            if env[k] == 'none':
                return 'None', 'none'
            return mangle(k), env[k]
        if isinstance(e, ast.Attribute):
            rt, rty = self.expr(e.value, env)
            if (rty, e.attr) in self.FIELDS:
                pr, ty = self.FIELDS[(rty, e.attr)]
                return '(%s %s)' % (pr, rt), ty
            raise Unsupported('attribute %s of %r' % (e.attr, rty))
        if isinstance(e, ast.Constant):
            v = e.value
            if v is None:
                return 'None', 'none'
            if isinstance(v, bool):
                return ('true' if v else 'false'), 'bool'
            if isinstance(v, str):
                return codes(v), 'str'
            if type(v) is int and v >= 0:
                return str(v), 'nat'
            raise Unsupported('constant %r' % (v,))
        if isinstance(e, ast.Dict) and not e.keys:
            return '([] : tbl)', 'tbl'
        if isinstance(e, ast.List):
            parts = [self.expr(x, env) for x in e.elts]
            if not parts:
                return '[]', ('list', 'any')
            ts = {p[1] for p in parts}
            if len(ts) != 1:
                raise Unsupported('heterogeneous list ' + ast.unparse(e))
            return '[' + '; '.join(p[0] for p in parts) + ']', ('list', parts[0][1])
        if isinstance(e, ast.BinOp) and isinstance(e.op, ast.Add):
            (l, lt), (r, rt) = self.expr(e.left, env), self.expr(e.right, env)
            if lt == rt == 'str' or (isinstance(lt, tuple) and lt[0] == 'list' and lt == rt):
                return '(%s ++ %s)' % (l, r), lt
            raise Unsupported('+ on %r and %r' % (lt, rt))
        if isinstance(e, ast.BinOp) and isinstance(e.op, ast.Sub):
            # int - int, with python's bool -> int coercion (True - False == 1)
            parts = []
            for x in (e.left, e.right):
                t, ty = self.expr(x, env)
                if ty == 'bool':
                    t = '(b2z %s)' % t
                elif ty != 'Z':
                    raise Unsupported('- on %r' % (ty,))
                parts.append(t)
            return '(%s - %s)%%Z' % tuple(parts), 'Z'
        if isinstance(e, ast.BoolOp):
            op = ' && ' if isinstance(e.op, ast.And) else ' || '
            parts = [self.expr(v, env) for v in e.values]
            if any(p[1] != 'bool' for p in parts):
                raise Unsupported('and/or on non-boolean operands: ' + ast.unparse(e))
            return '(' + op.join(p[0] for p in parts) + ')', 'bool'
        if isinstance(e, ast.UnaryOp) and isinstance(e.op, ast.Not):
            t, ty = self.expr(e.operand, env)
            if ty != 'bool':
                raise Unsupported('not on %r' % (ty,))
            return '(negb %s)' % t, 'bool'
        if isinstance(e, ast.Compare) and len(e.ops) == 1:
            return self.compare(e, env)
        if isinstance(e, ast.Subscript) and isinstance(e.slice, ast.Constant) \
                and e.slice.value in (0, 1):
            t, ty = self.expr(e.value, env)
            if ty == 'entry':
                return ('(fst %s)' % t, 'str') if e.slice.value == 0 else ('(snd %s)' % t, 'nat')
            raise Unsupported('subscript of %r' % (ty,))
        if isinstance(e, ast.IfExp):
            return self.branch(e.test, env,
                               lambda en: self.expr(e.body, en),
                               lambda en: self.expr(e.orelse, en))
        if isinstance(e, ast.Call):
            return self.call(e, env)
        raise Unsupported(ast.dump(e))

    def compare(self, e, env):
        op = e.ops[0]
        (l, lt), (r, rt) = self.expr(e.left, env), self.expr(e.comparators[0], env)
        if lt == 'Z' and rt == 'nat' and isinstance(e.comparators[0], ast.Constant):
            r, rt = '(%s)%%Z' % r, 'Z'
        if rt == 'Z' and lt == 'nat' and isinstance(e.left, ast.Constant):
            l, lt = '(%s)%%Z' % l, 'Z'
        neg = isinstance(op, (ast.NotEq, ast.NotIn))
        if isinstance(op, (ast.Eq, ast.NotEq)):
            if lt == rt == 'str':
                t = '(name_eqb %s %s)' % (l, r)
            elif lt == rt == 'nat':
                t = '(Nat.eqb %s %s)' % (l, r)
            elif lt == rt == 'Z':
                t = '(Z.eqb %s %s)' % (l, r)
            else:
                raise Unsupported('== on %r and %r' % (lt, rt))
        elif isinstance(op, (ast.In, ast.NotIn)):
            if lt == rt == 'str' and isinstance(e.left, ast.Constant):
                t = '(contains %s %s)' % (l, r)
            elif lt == 'nat' and rt in ('natset', ('list', 'nat')):
                t = '(%s %s %s)' % (self.MEM, l, r)
            else:
                raise Unsupported('in on %r and %r' % (lt, rt))
        elif isinstance(op, (ast.Lt, ast.LtE, ast.Gt, ast.GtE)) and lt == rt and lt in ('nat', 'Z'):
            sym = {ast.Lt: 'ltb', ast.LtE: 'leb', ast.Gt: 'ltb', ast.GtE: 'leb'}[type(op)]
            if isinstance(op, (ast.Gt, ast.GtE)):
                l, r = r, l
            t = '(%s.%s %s %s)' % ('Nat' if lt == 'nat' else 'Z', sym, l, r)
        else:
            raise Unsupported(ast.dump(e))
        return ('(negb %s)' % t if neg else t), 'bool'

    def args(self, call, env):
        if call.keywords:
            raise Unsupported('keyword arguments: ' + ast.unparse(call))
        return [self.expr(a, env) for a in call.args]

    def call(self, e, env):
        f = e.func
        # dict(filter(lambda t, sn=..: test, d.items()))  ==  the sub-dictionary
        if isinstance(f, ast.Name) and f.id == 'dict' and len(e.args) == 1 and not e.keywords:
            return self.dict_filter(e.args[0], env)
        if isinstance(f, ast.Name) and f.id == 'str' and len(e.args) == 1:
            t, ty = self.expr(e.args[0], env)
            if ty == 'nat':
                return '(dec_nat %s)' % t, 'str'
            if ty == 'Z':
                return '(dec_Z %s)' % t, 'str'
            raise Unsupported('str() of %r' % (ty,))
        if isinstance(f, ast.Name) and f.id == 'int' and len(e.args) == 1 and 'int' not in self.RAISING:
            t, ty = self.expr(e.args[0], env)
            if ty == 'bool':
                return '(b2z %s)' % t, 'Z'
            if ty == 'Z':
                return t, 'Z'
            raise Unsupported('int() of %r' % (ty,))
        if isinstance(f, ast.Name) and f.id == 'len' and len(e.args) == 1:
            t, ty = self.expr(e.args[0], env)
            if ty in ('str', 'tbl', 'natset') or (isinstance(ty, tuple) and ty[0] == 'list'):
                return '(length %s)' % t, 'nat'
            raise Unsupported('len() of %r' % (ty,))
        if isinstance(f, ast.Name) and f.id in self.FUNCS:
            params, rty, raises = self.FUNCS[f.id]
            if raises:
                raise Unsupported('raising function used inside an expression: ' + f.id)
            got = self.args(e, env)
            if len(got) > len(params):
                raise Unsupported('too many arguments: ' + ast.unparse(e))
            out = []
            for i, (pty, dflt) in enumerate(params):
                if i < len(got):
                    out.append(coerce(got[i][0], got[i][1], pty))
                elif dflt is not None:
                    out.append(dflt)
                else:
                    raise Unsupported('missing argument: ' + ast.unparse(e))
            return '(%s %s)' % (self.FNAME.get(f.id, f.id), ' '.join(out)), rty
        if isinstance(f, ast.Attribute):
            rt, rty = self.expr(f.value, env)
            m = self.METHODS.get((rty if not isinstance(rty, tuple) else rty[0], f.attr))
            if m:
                return m(rt, self.args(e, env))
            raise Unsupported('method %s of %r' % (f.attr, rty))
        raise Unsupported(ast.dump(e))

    def dict_filter(self, a, env):
        if not (isinstance(a, ast.Call) and isinstance(a.func, ast.Name) and a.func.id == 'filter'
                and len(a.args) == 2 and isinstance(a.args[0], ast.Lambda)
                and isinstance(a.args[1], ast.Call) and isinstance(a.args[1].func, ast.Attribute)
                and a.args[1].func.attr == 'items' and not a.args[1].args):
            raise Unsupported('dict(...) other than dict(filter(lambda, d.items()))')
        lam = a.args[0]
        d, dty = self.expr(a.args[1].func.value, env)
        if dty != 'tbl':
            raise Unsupported('.items() of %r' % (dty,))
        la = lam.args
        if la.vararg or la.kwarg or la.kwonlyargs or la.posonlyargs:
            raise Unsupported('lambda signature')
        names = [x.arg for x in la.args]
        ndef = len(la.defaults)
        if len(names) - ndef != 1:
            raise Unsupported('filter lambda must take one item (+ defaulted names)')
        en = dict(env)
        lets = ''
        for n, dv in zip(names[1:], la.defaults):
            t, ty = self.expr(dv, env)
            lets += 'let %s := %s in ' % (mangle(n), t)
            en[n] = ty
        en[names[0]] = 'entry'
        body, bty = self.expr(lam.body, en)
        if bty != 'bool':
            raise Unsupported('filter predicate is not boolean')
        return '(filter (fun %s => %s%s) %s)' % (mangle(names[0]), lets, body, d), 'tbl'

    # ---- tests ---------------------------------------------------------------
    def branch(self, test, env, then, orelse):
        '''then/orelse: env -> (text, type); the two types must agree'''
        neg = False
        t = test
        if isinstance(t, ast.UnaryOp) and isinstance(t.op, ast.Not):
            neg, t = True, t.operand
        var, isnone = None, None
        if isinstance(t, ast.Compare) and len(t.ops) == 1 and isinstance(t.ops[0], (ast.Is, ast.IsNot)) \
                and isinstance(t.comparators[0], ast.Constant) and t.comparators[0].value is None:
            var = self.key(t.left)
            isnone = isinstance(t.ops[0], ast.Is)
            if var is None:
                raise Unsupported('is None of a non-variable')
        elif self.key(t) is not None and env.get(self.key(t)) != 'bool':
            var, isnone = self.key(t), False        # truthiness of a variable
        if var is None:
            c, cty = self.expr(test, env)
            if cty != 'bool':
                raise Unsupported('test is not boolean: ' + ast.unparse(test))
            (a, at), (b, bt) = then(env), orelse(env)
            return '(if %s then %s else %s)' % (c, a, b), unify(at, bt)
        if neg:
            isnone = not isnone
        ty = env.get(var)
        yes, no = (orelse, then) if isnone else (then, orelse)   # yes = "is something"
        if isinstance(ty, tuple) and ty[0] == 'opt':
            en = dict(env)
            en[var] = ty[1]
            (a, at), (b, bt) = yes(en), no(env)
            return '(match %s with Some %s => %s | None => %s end)' % (
                mangle(var), mangle(var), a, b), unify(at, bt)
        if isinstance(ty, tuple) and ty[0] == 'list' and not (
                isinstance(t, ast.Compare)):
            (a, at), (b, bt) = yes(env), no(env)
            return '(match %s with _ :: _ => %s | [] => %s end)' % (mangle(var), a, b), unify(at, bt)
        raise Unsupported('truthiness of %s : %r' % (var, ty))

    # ---- statements ----------------------------------------------------------
    def raises(self, stmts):
        for s in stmts:
            if isinstance(s, ast.Assign):
                v = s.value
                if isinstance(s.targets[0], (ast.Tuple, ast.List)):
                    return True
                if isinstance(v, ast.Call) and isinstance(v.func, ast.Name) and v.func.id in self.RAISING:
                    return True
            elif isinstance(s, ast.Expr) and isinstance(s.value, ast.Call) \
                    and isinstance(s.value.func, ast.Attribute):
                f = s.value.func
                if isinstance(f.value, ast.Name) and f.value.id == 'self' and f.attr in self.SELF:
                    if self.SELF[f.attr][1]:
                        return True
                elif f.attr in ('remove',):
                    return True
            elif isinstance(s, ast.If):
                if self.raises(s.body) or self.raises(s.orelse):
                    return True
            elif isinstance(s, ast.For):
                if self.raises(s.body):
                    return True
        return False

    def block(self, stmts, env, tail):
        '''Gallina text of the statements followed by tail(env) -> text.  The
        caller decides whether tail wraps its value in Some.'''
        if not stmts:
            return tail(env)
        s, rest = stmts[0], stmts[1:]

        def k(en):
            return self.block(rest, en, tail)

        if isinstance(s, ast.Pass) or (isinstance(s, ast.Expr) and isinstance(s.value, ast.Constant)):
            return k(env)
        if isinstance(s, ast.Return):
            if rest:
                raise Unsupported('return before the end of the function')
            return tail(dict(env, **{'return': s.value}))
        if isinstance(s, ast.Assign):
            return self.assign(s, env, k)
        if isinstance(s, ast.Expr) and isinstance(s.value, ast.Call):
            return self.mutate(s.value, env, k)
        if isinstance(s, ast.If):
            return self.if_(s, env, k)
        if isinstance(s, ast.For):
            return self.for_(s, env, k)
        raise Unsupported(ast.dump(s))

    def assign(self, s, env, k):
        if len(s.targets) != 1:
            raise Unsupported('chained assignment')
        tg, v = s.targets[0], s.value
        if isinstance(tg, (ast.Tuple, ast.List)):
            # a, b = s.split(<const>)
            if not (len(tg.elts) == 2 and all(isinstance(x, ast.Name) for x in tg.elts)
                    and isinstance(v, ast.Call) and isinstance(v.func, ast.Attribute)
                    and v.func.attr == 'split' and len(v.args) == 1 and not v.keywords
                    and isinstance(v.args[0], ast.Constant) and isinstance(v.args[0].value, str)
                    and v.args[0].value):
                raise Unsupported('tuple assignment other than a, b = s.split(const): ' + ast.unparse(s))
            r, rty = self.expr(v.func.value, env)
            if rty != 'str':
                raise Unsupported('split of %r' % (rty,))
            a, b = tg.elts[0].id, tg.elts[1].id
            en = dict(env)
            en[a] = en[b] = 'str'
            return ('match split2 %s %s with None => None | Some (%s, %s) =>\n  %s end'
                    % (codes(v.args[0].value), r, mangle(a), mangle(b), k(en)))
        key = self.key(tg)
        if key is None:
            raise Unsupported('assignment target ' + ast.unparse(tg))
        if isinstance(v, ast.Call) and isinstance(v.func, ast.Name) and v.func.id in self.RAISING:
            t, ty = self.RAISING[v.func.id](self.args(v, env))
            en = dict(env)
            en[key] = ty
            return 'match %s with None => None | Some %s =>\n  %s end' % (t, mangle(key), k(en))
        t, ty = self.expr(v, env)
        if ty == ('list', 'any') or (isinstance(v, ast.Call) and ast.unparse(v) == 'set()'):
            raise Unsupported('untyped empty container: ' + ast.unparse(s))
        en = dict(env)
        en[key] = ty
        if ty == 'none':
            return k(en)
        return 'let %s := %s in\n  %s' % (mangle(key), t, k(en))

    def mutate(self, c, env, k):
        f = c.func
        if not isinstance(f, ast.Attribute):
            raise Unsupported('bare call statement ' + ast.unparse(c))
        # self.add(value): a translated method of the same class
        if isinstance(f.value, ast.Name) and f.value.id == 'self' and f.attr in self.SELF:
            vars_, raises = self.SELF[f.attr]
            a = self.args(c, env)
            for v in vars_:
                if v not in env:
                    raise Unsupported('state variable %s unbound' % v)
            st = '(' + ', '.join(mangle(v) for v in vars_) + ')'
            call = '(%s %s %s)' % (f.attr.strip('_') if f.attr.startswith('__') else f.attr,
                                   st, ' '.join(x[0] for x in a))
            if raises:
                return 'match %s with None => None | Some %s =>\n  %s end' % (call, st, k(env))
            return "let '%s := %s in\n  %s" % (st, call, k(env))
        key = self.key(f.value)
        if key is None or key not in env:
            raise Unsupported('mutation of a non-variable: ' + ast.unparse(c))
        ty = env[key]
        m = self.MUTATORS.get((ty if not isinstance(ty, tuple) else ty[0], f.attr))
        if not m:
            raise Unsupported('method %s of %r used as a statement' % (f.attr, ty))
        t, raises = m(mangle(key), self.args(c, env))
        if raises:
            return 'match %s with None => None | Some %s =>\n  %s end' % (t, mangle(key), k(env))
        return 'let %s := %s in\n  %s' % (mangle(key), t, k(env))

    def _types_after(self, stmts, env):
        seen = {}

        def tail(en):
            seen.update(en)
            return ''
        self.block(stmts, env, tail)
        return seen

    def if_(self, s, env, k):
        for b in (s.body, s.orelse):
            if any(isinstance(x, ast.Return) for x in b):
                raise Unsupported('return inside if')
        mod = assigned(s.body) + [n for n in assigned(s.orelse) if n not in assigned(s.body)]
        mod = [self.ATTR.get(n, n) for n in mod]
        if 'self' in mod:
            mod = [n for n in mod if n != 'self'] + [v for v in self.STATE if v not in mod]
        raises = self.raises(s.body) or self.raises(s.orelse)
        types = {}
        outs = []

        def probe(which):
            def f(en):
                ta = self._types_after(which, en)
                for n in mod:
                    if n in ta:
                        types.setdefault(n, []).append(ta[n])
                return '', 'probe'
            return f
        self.branch(s.test, env, probe(s.body), probe(s.orelse))
        joined = {}
        for n in mod:
            ts = types.get(n, [])
            if len(ts) == 2:
                joined[n] = join_type(ts[0], ts[1])
                outs.append(n)
            # bound on one path only: not visible after the if (fail closed if used)
        if not outs:
            raise Unsupported('if statement without effect on any variable: ' + ast.unparse(s.test))

        def tup(en):
            parts = [coerce(mangle(n), en[n], joined[n]) for n in outs]
            t = parts[0] if len(parts) == 1 else '(' + ', '.join(parts) + ')'
            return 'Some ' + t if raises else t

        def side(which):
            return lambda en: ('(' + self.block(which, en, tup) + ')', 'x')
        cond, _ = self.branch(s.test, env, side(s.body), side(s.orelse))
        en = dict(env)
        for n in outs:
            en[n] = joined[n]
        pat = mangle(outs[0]) if len(outs) == 1 else '(' + ', '.join(mangle(n) for n in outs) + ')'
        if raises:
            return 'match %s with None => None | Some %s =>\n  %s end' % (cond, pat, k(en))
        if len(outs) == 1:
            return 'let %s := %s in\n  %s' % (pat, cond, k(en))
        return "let '%s := %s in\n  %s" % (pat, cond, k(en))

    def for_(self, s, env, k):
        if s.orelse or not isinstance(s.target, ast.Name):
            raise Unsupported('for/else or pattern target')
        if self.raises(s.body):
            raise Unsupported('a loop body that may raise')
        it, ity = self.expr(s.iter, env)
        if not (isinstance(ity, tuple) and ity[0] == 'list'):
            raise Unsupported('iteration over %r' % (ity,))
        x = s.target.id
        mod = [self.ATTR.get(n, n) for n in assigned(s.body)]
        if 'self' in mod:
            mod = [n for n in mod if n != 'self'] + [v for v in self.STATE if v not in mod]
        acc = [n for n in mod if n in env]
        if not acc:
            raise Unsupported('loop without accumulator')
        en = dict(env)
        en[x] = ity[1]
        after = self._types_after(s.body, en)
        for n in acc:
            if after[n] != env[n]:
                raise Unsupported('accumulator %s changes type in the loop' % n)

        def tup(e2):
            parts = [mangle(n) for n in acc]
            return parts[0] if len(parts) == 1 else '(' + ', '.join(parts) + ')'
        body = self.block(s.body, en, tup)
        pat = tup(None)
        if len(acc) == 1:
            return 'let %s := fold_left (fun %s %s =>\n  %s) %s %s in\n  %s' % (
                pat, pat, mangle(x), body, it, pat, k(env))
        return "let '%s := fold_left (fun '%s %s =>\n  %s) %s %s in\n  %s" % (
            pat, pat, mangle(x), body, it, pat, k(env))

    # ---- a whole function ------------------------------------------------------
    def function(self, fn, gname, params, ret=None, state_ret=None, state=None):
        '''params: [(python name, type)] in Gallina order.  ret: expected type
        of the returned expression (joined/coerced), or state_ret = names of
        the state variables returned by a method without return value.
        Returns (Gallina text, result type, raises).'''
        a = fn.args
        if a.vararg or a.kwarg or a.kwonlyargs or a.posonlyargs:
            raise Unsupported(fn.name + ': signature')
        env = {n: t for n, t in params}
        if state:
            env.update({n: t for n, t in state})
        body = [x for x in fn.body]
        raises = self.raises(body)
        info = {}

        def tail(en):
            if state_ret is not None:
                if 'return' in en and en['return'] is not None:
                    raise Unsupported(fn.name + ': unexpected return value')
                parts = [(mangle(v), en[v]) for v in state_ret]
                t = '(' + ', '.join(p[0] for p in parts) + ')'
                ty = ('tuple', [p[1] for p in parts])
            else:
                if 'return' not in en:
                    raise Unsupported(fn.name + ': falls off the end without return')
                rv = en['return']
                if isinstance(rv, ast.Tuple):
                    parts = [self.expr(x, en) for x in rv.elts]
                    if ret is not None:
                        if ret[0] != 'tuple' or len(ret[1]) != len(parts):
                            raise Unsupported(fn.name + ': return arity')
                        parts = [(coerce(p[0], p[1], w), w) for p, w in zip(parts, ret[1])]
                    t = '(' + ', '.join(p[0] for p in parts) + ')'
                    ty = ('tuple', [p[1] for p in parts])
                else:
                    t, ty = self.expr(rv, en)
                    if ret is not None:
                        t, ty = coerce(t, ty, ret), ret
            info['ty'] = ty
            return 'Some ' + t if raises else t
        text = self.block(body, env, tail)
        ty = info['ty']
        sig = ' '.join('(%s : %s)' % (mangle(n), gtype(t)) for n, t in params)
        if state:
            sig = '(st_ : %s) %s' % (gtype(('tuple', [t for _, t in state])), sig)
            text = "let '(%s) := st_ in\n  %s" % (', '.join(mangle(n) for n, _ in state), text)
        rt = gtype(ty)
        if raises:
            rt = 'option ' + rt
        return 'Definition %s %s : %s :=\n  %s.' % (gname, sig, rt, text), ty, raises


def strip_doc(body):
    return [s for s in body if not (isinstance(s, ast.Expr) and isinstance(s.value, ast.Constant))]
