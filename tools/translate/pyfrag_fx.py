'''pyfrag_fx.py -- pyfrag.Tr extended for the handler-style code of
dawgie/security.py, dawgie/fe/basis.py and dawgie/db/shelve/comms.py
(security2coq.py, lock2coq.py).  Everything outside the fragment raises
Unsupported (the scripts exit 2).

Added to the fragment of pyfrag.py:

  early return      if t: ...; return e        the statements after the `if`
                    become the else branch (both branches of an `if` may end
                    in `return`); a `return` followed by statements is refused
  try / except      try: return CALL / x = CALL   with CALL declared in RAISING
                    except: <neutral statements>  (one bare handler, or the
                    handler types listed in CATCH_ALL); no else/finally:
                        match CALL with Some v => .. | None => <handler; rest> end
  neutral           statements declared effect-free by the predicate
                    `neutral(stmt)` of the script (logging calls whose arguments
                    are names/attributes/constants only, ...) are skipped
  strings           a python str constant is a Coq `string` (type 'string');
                    ==, in / not in a list of strings (mem_str)
  x is None         as a boolean expression (`cert is None and ..`) on a
                    variable of option type: (is_none x)
  effects           EFFECTS: exact python text of a call statement -> function
                    (env) -> [(state variable, new Gallina text)]: a rebinding
                    of the named state variables (reactor.callLater, _send, ..)
  self.m() / f()    STATEFUL[python callee text] = Gallina name: a call statement
                    of an already translated function of the whole state tuple
  if                every `if` statement joins ALL state variables (plus the
                    local names bound on both sides)
'''
import ast

import pyfrag
from pyfrag import Tr, Unsupported, mangle, join_type, coerce

pyfrag.GTYPE.setdefault('string', 'string')


def qstr(s):
    if not isinstance(s, str) or any(ord(c) < 32 or ord(c) > 126 for c in s):
        raise Unsupported('non printable-ascii string %r' % (s,))
    return '"%s"' % s.replace('"', '""')


def ends_in_return(stmts):
    '''every path through the statements ends in `return`'''
    if not stmts:
        return False
    s = stmts[-1]
    if isinstance(s, ast.Return):
        return True
    if isinstance(s, ast.If):
        return ends_in_return(s.body) and ends_in_return(s.orelse)
    return False


def has_return(stmts):
    return any(isinstance(n, ast.Return) for s in stmts for n in ast.walk(s))


class TrX(Tr):
    def __init__(self, **kw):
        self.EFFECTS = kw.pop('EFFECTS', {})
        self.STATEFUL = kw.pop('STATEFUL', {})
        self.PURE = kw.pop('PURE', {})          # python callee text -> (Gallina name, type): f(state)
        self.CONSTS = kw.pop('CONSTS', {})      # python expression text -> (Gallina text, type)
        self.neutral = kw.pop('neutral', lambda s: False)
        self.EQB = kw.pop('EQB', {})            # type -> Gallina boolean equality
        Tr.__init__(self, **kw)

    # ---- expressions ---------------------------------------------------------
    def state_tuple(self, env):
        for v in self.STATE:
            if v not in env:
                raise Unsupported('state variable %s unbound' % v)
        return '(' + ', '.join(mangle(v) for v in self.STATE) + ')'

    def expr(self, e, env):
        txt = ast.unparse(e)
        if txt in self.CONSTS:
            return self.CONSTS[txt]
        if isinstance(e, ast.Constant) and isinstance(e.value, str):
            return qstr(e.value), 'string'
        if isinstance(e, ast.Call) and ast.unparse(e.func) in self.PURE:
            if e.args or e.keywords:
                raise Unsupported('arguments of ' + txt)
            g, ty = self.PURE[ast.unparse(e.func)]
            return '(%s %s)' % (g, self.state_tuple(env)), ty
        return Tr.expr(self, e, env)

    def compare(self, e, env):
        op = e.ops[0]
        c0 = e.comparators[0]
        if isinstance(op, (ast.Is, ast.IsNot)) and isinstance(c0, ast.Constant) and c0.value is None:
            k = self.key(e.left)
            if k is None or not (isinstance(env.get(k), tuple) and env[k][0] == 'opt'):
                raise Unsupported('is None of %s' % ast.unparse(e.left))
            t = '(is_none %s)' % mangle(k)
            return ('(negb %s)' % t if isinstance(op, ast.IsNot) else t), 'bool'
        (l, lt), (r, rt) = self.expr(e.left, env), self.expr(c0, env)
        neg = isinstance(op, (ast.NotEq, ast.NotIn))
        t = None
        if isinstance(op, (ast.Eq, ast.NotEq)):
            if lt == rt == 'string':
                t = '(String.eqb %s %s)' % (l, r)
            elif lt == rt and lt in self.EQB:
                t = '(%s %s %s)' % (self.EQB[lt], l, r)
        elif isinstance(op, (ast.In, ast.NotIn)):
            if lt == 'string' and rt == ('list', 'string'):
                t = '(mem_str %s %s)' % (l, r)
            elif isinstance(rt, tuple) and rt[0] == 'list' and rt[1] == lt and lt in self.EQB:
                t = '(existsb (%s %s) %s)' % (self.EQB[lt], l, r)
        elif isinstance(op, (ast.Lt, ast.Gt)) and isinstance(e.left, ast.Constant) and e.left.value == 0 \
                and rt == 'nat' and isinstance(op, ast.Lt):
            t = '(Nat.ltb 0 %s)' % r
        if t is None:
            return Tr.compare(self, e, env)
        return ('(negb %s)' % t if neg else t), 'bool'

    # ---- statements ----------------------------------------------------------
    def raises(self, stmts):
        for s in stmts:
            if self.neutral(s):
                continue
            if isinstance(s, ast.Try):
                # the handler catches what the body raises; handler and rest may raise
                if any(self.raises(h.body) for h in s.handlers):
                    return True
                continue
            if isinstance(s, ast.Expr) and isinstance(s.value, ast.Call):
                txt = ast.unparse(s.value.func)
                full = ast.unparse(s.value)
                if full in self.STATEFUL or txt in self.STATEFUL:
                    if self.STATEFUL.get(full, self.STATEFUL.get(txt))[1]:
                        return True
                    continue
                if full in self.EFFECTS or txt in self.EFFECTS:
                    continue
            if Tr.raises(self, [s]) if not isinstance(s, (ast.If, ast.For)) else False:
                return True
            if isinstance(s, ast.If) and (self.raises(s.body) or self.raises(s.orelse)):
                return True
            if isinstance(s, ast.For) and self.raises(s.body):
                return True
        return False

    def block(self, stmts, env, tail):
        if not stmts:
            return tail(env)
        s, rest = stmts[0], stmts[1:]

        def k(en):
            return self.block(rest, en, tail)

        if self.neutral(s):
            return k(env)
        if isinstance(s, ast.Return) and rest:
            raise Unsupported('statements after return')
        if isinstance(s, ast.If) and (has_return(s.body) or has_return(s.orelse)):
            b_ret, o_ret = ends_in_return(s.body), ends_in_return(s.orelse)
            if has_return(s.body) and not b_ret or has_return(s.orelse) and not o_ret:
                raise Unsupported('return on some paths only of a branch: ' + ast.unparse(s.test))
            body = s.body if b_ret else s.body + rest
            orelse = s.orelse if o_ret else s.orelse + rest
            if b_ret and o_ret and rest:
                raise Unsupported('statements after an if that always returns')
            text, _ = self.branch(s.test, env,
                                  lambda en: ('(' + self.block(body, en, tail) + ')', 'x'),
                                  lambda en: ('(' + self.block(orelse, en, tail) + ')', 'x'))
            return text
        if isinstance(s, ast.Try):
            return self.try_(s, rest, env, tail)
        if isinstance(s, ast.Expr) and isinstance(s.value, ast.Call):
            c = s.value
            txt, ftxt = ast.unparse(c), ast.unparse(c.func)
            eff = self.EFFECTS.get(txt) or self.EFFECTS.get(ftxt)
            if eff:
                en = dict(env)
                lets = ''
                for var, new in eff(self, c, env):
                    if var not in env:
                        raise Unsupported('state variable %s unbound' % var)
                    lets += 'let %s := %s in\n  ' % (mangle(var), new)
                return lets + k(en)
            if txt in self.STATEFUL or ftxt in self.STATEFUL:
                if txt in self.STATEFUL:
                    g, may_raise = self.STATEFUL[txt]       # the exact call, arguments included
                else:
                    g, may_raise = self.STATEFUL[ftxt]
                    if c.args or c.keywords:
                        raise Unsupported('arguments of ' + txt)
                st = self.state_tuple(env)
                if may_raise:
                    return 'match %s %s with None => None | Some %s =>\n  %s end' % (g, st, st, k(env))
                return "let '%s := %s %s in\n  %s" % (st, g, st, k(env))
        return Tr.block(self, stmts, env, tail)

    CATCH_ALL = ()

    def try_(self, s, rest, env, tail):
        if s.orelse or s.finalbody or len(s.handlers) != 1 or len(s.body) != 1:
            raise Unsupported('try shape: ' + ast.unparse(s)[:80])
        h = s.handlers[0]
        if h.type is not None and ast.unparse(h.type) not in self.CATCH_ALL:
            raise Unsupported('except clause that does not catch every exception: ' + ast.unparse(h.type))
        b = s.body[0]
        if isinstance(b, ast.Return):
            call, bind = b.value, None
        elif isinstance(b, ast.Assign) and len(b.targets) == 1 and isinstance(b.targets[0], ast.Name):
            call, bind = b.value, b.targets[0].id
        else:
            raise Unsupported('try body: ' + ast.unparse(b)[:80])
        ftxt = ast.unparse(call.func) if isinstance(call, ast.Call) else None
        if ftxt not in self.RAISING:
            raise Unsupported('try around something that is not a declared raising call: ' + ast.unparse(call)[:80])
        t, ty = self.RAISING[ftxt]([self.expr(a, env) for a in call.args])
        if call.keywords:
            raise Unsupported('keyword arguments: ' + ast.unparse(call))
        handler = self.block(list(h.body) + rest, env, tail)
        if bind is None:
            good = tail(dict(env, **{'return': ast.Name('tryv__', ast.Load()), 'tryv__': ty}))
            return 'match %s with Some tryv___ => %s | None =>\n  %s end' % (t, good, handler)
        raise Unsupported('try: x = call  (only try: return call is in the fragment)')

    def if_(self, s, env, k):
        if has_return(s.body) or has_return(s.orelse):
            raise Unsupported('return inside if')
        loc = [n for n in pyfrag.assigned(s.body) if n in pyfrag.assigned(s.orelse)
               and '.' not in n and n != 'self']
        mod = [v for v in self.STATE if v in env] + [n for n in loc if n not in self.STATE]
        raises = self.raises(s.body) or self.raises(s.orelse)
        types = {}

        def probe(which):
            def f(en):
                ta = self._types_after(which, en)
                for n in mod:
                    if n in ta:
                        types.setdefault(n, []).append(ta[n])
                return '', 'probe'
            return f
        self.branch(s.test, env, probe(s.body), probe(s.orelse))
        joined, outs = {}, []
        for n in mod:
            ts = types.get(n, [])
            if len(ts) == 2:
                joined[n] = join_type(ts[0], ts[1])
                outs.append(n)
        if not outs:
            raise Unsupported('if statement without effect on any variable: ' + ast.unparse(s.test))

        def tup(en):
            parts = [coerce(mangle(n), en[n], joined[n]) for n in outs]
            t = parts[0] if len(parts) == 1 else '(' + ', '.join(parts) + ')'
            return 'Some ' + t if raises else t

        def side(which):
            return lambda en: ('(' + self.block(which, en, tup) + ')', 'x')
        cond, _ = self.branch(s.test, env, side(s.body), side(s.orelse))
        en = dict(env)
        for n in outs:
            en[n] = joined[n]
        pat = mangle(outs[0]) if len(outs) == 1 else '(' + ', '.join(mangle(n) for n in outs) + ')'
        if raises:
            return 'match %s with None => None | Some %s =>\n  %s end' % (cond, pat, k(en))
        if len(outs) == 1:
            return 'let %s := %s in\n  %s' % (pat, cond, k(en))
        return "let '%s := %s in\n  %s" % (pat, cond, k(en))


def plain_args(call):
    '''arguments are names / attribute chains / constants only (cannot have an effect)'''
    def plain(a):
        if isinstance(a, ast.Constant) or isinstance(a, ast.Name):
            return True
        if isinstance(a, ast.Attribute):
            return plain(a.value)
        if isinstance(a, ast.JoinedStr):
            return all(plain(v.value) if isinstance(v, ast.FormattedValue) else True for v in a.values)
        return False
    return all(plain(a) for a in call.args) and all(plain(kw.value) for kw in call.keywords)


def is_log_call(s, names=('log', 'LOG')):
    return (isinstance(s, ast.Expr) and isinstance(s.value, ast.Call)
            and isinstance(s.value.func, ast.Attribute)
            and isinstance(s.value.func.value, ast.Name) and s.value.func.value.id in names
            and s.value.func.attr in ('debug', 'info', 'warning', 'error', 'exception', 'critical')
            and plain_args(s.value))
