'''range2coq.py -- fail-closed translation of the run-id range tests of
/repo/Python/dawgie/db/basis.py to Gallina (coq/Gen/RangeGen.v):

  Range.__contains__(self, member)           -> rng_contains (r : rng) (m : Z)
  Range.__ge__(self, other)                  -> rng_ge       (r : rng) (o : Z)
  the element of the `any(... for r in ranges)` generator inside
  SearchFacade._scrub (is index i covered?)  -> scrub_covers (r : rng) (i : Z)

A Range is the pair (start, stop) with stop : option Z (None = open).

Subset: `if X.stop is None: ... ` / `A if X.stop is None else B` (become a
match on the option; X.stop may only be read where it is known not to be
None), `return`, chained integer comparisons, `+`/`-` with integers, `and`,
`or`, `not`.  Anything else raises Unsupported (exit 2): the check then takes
the "correspondence broken" path.'''
import ast
import hashlib
import os
import sys

SRC = os.path.join(os.environ.get('VERIF_REPO', '/repo'), 'Python/dawgie/db/basis.py')
CMP = {ast.Eq: '=?', ast.Lt: '<?', ast.LtE: '<=?', ast.Gt: '>?', ast.GtE: '>=?'}


class Unsupported(Exception):
    pass


class Env:
    '''objs: python name -> gallina variable of type rng
       ints: python name -> gallina variable of type Z
       known: python name of a range whose stop is known to be `Some v` -> v'''

    def __init__(self, objs, ints, known=None, n=0):
        self.objs, self.ints, self.known, self.n = objs, ints, dict(known or {}), n

    def some(self, obj):
        v = 's%d' % self.n
        e = Env(self.objs, self.ints, self.known, self.n + 1)
        e.known[obj] = v
        return e, v


def is_none_test(t, env):
    '''`X.stop is None` / `X.stop is not None` -> (X, positive?) or None'''
    if (isinstance(t, ast.Compare) and len(t.ops) == 1
            and isinstance(t.ops[0], (ast.Is, ast.IsNot))
            and isinstance(t.comparators[0], ast.Constant) and t.comparators[0].value is None
            and isinstance(t.left, ast.Attribute) and t.left.attr == 'stop'
            and isinstance(t.left.value, ast.Name) and t.left.value.id in env.objs):
        return t.left.value.id, isinstance(t.ops[0], ast.Is)
    return None


def option_match(obj, positive, env, none_branch, some_branch):
    '''none_branch(env) / some_branch(env') are thunks producing Gallina'''
    if obj in env.known:
        raise Unsupported('%s.stop tested for None twice' % obj)
    e2, v = env.some(obj)
    a, b = none_branch(env), some_branch(e2)
    if not positive:
        a, b = none_branch(e2), some_branch(env)
        return '(match snd %s with Some %s => %s | None => %s end)' % (env.objs[obj], v, a, b)
    return '(match snd %s with None => %s | Some %s => %s end)' % (env.objs[obj], a, v, b)


def zexpr(e, env):
    if isinstance(e, ast.Constant) and type(e.value) is int:
        return '(%d)' % e.value
    if (isinstance(e, ast.UnaryOp) and isinstance(e.op, ast.USub)
            and isinstance(e.operand, ast.Constant) and type(e.operand.value) is int):
        return '(-%d)' % e.operand.value
    if isinstance(e, ast.Name) and e.id in env.ints:
        return env.ints[e.id]
    if isinstance(e, ast.Attribute) and isinstance(e.value, ast.Name) and e.value.id in env.objs:
        if e.attr == 'start':
            return '(fst %s)' % env.objs[e.value.id]
        if e.attr == 'stop':
            if e.value.id not in env.known:
                raise Unsupported('%s.stop read where it may be None' % e.value.id)
            return env.known[e.value.id]
    if isinstance(e, ast.BinOp) and isinstance(e.op, (ast.Add, ast.Sub)):
        op = '+' if isinstance(e.op, ast.Add) else '-'
        return '(%s %s %s)' % (zexpr(e.left, env), op, zexpr(e.right, env))
    if isinstance(e, ast.IfExp):
        t = is_none_test(e.test, env)
        if t:
            return option_match(t[0], t[1], env,
                                lambda en: zexpr(e.body, en), lambda en: zexpr(e.orelse, en))
        return '(if %s then %s else %s)' % (bexpr(e.test, env), zexpr(e.body, env), zexpr(e.orelse, env))
    raise Unsupported('integer expression ' + ast.dump(e))


def bexpr(e, env):
    if isinstance(e, ast.Constant) and isinstance(e.value, bool):
        return 'true' if e.value else 'false'
    if isinstance(e, ast.Compare):
        if is_none_test(e, env):
            raise Unsupported('`is None` used as a value: ' + ast.dump(e))
        terms = [e.left] + list(e.comparators)
        parts = []
        for op, l, r in zip(e.ops, terms, terms[1:]):
            lz, rz = zexpr(l, env), zexpr(r, env)
            if type(op) is ast.NotEq:
                parts.append('(negb (%s =? %s))' % (lz, rz))
            elif type(op) in CMP:
                parts.append('(%s %s %s)' % (lz, CMP[type(op)], rz))
            else:
                raise Unsupported('comparison ' + ast.dump(op))
        return parts[0] if len(parts) == 1 else '(' + ' && '.join(parts) + ')'
    if isinstance(e, ast.BoolOp):
        op = '&&' if isinstance(e.op, ast.And) else '||'
        return '(' + (' %s ' % op).join(bexpr(v, env) for v in e.values) + ')'
    if isinstance(e, ast.UnaryOp) and isinstance(e.op, ast.Not):
        return '(negb %s)' % bexpr(e.operand, env)
    if isinstance(e, ast.IfExp):
        t = is_none_test(e.test, env)
        if t:
            return option_match(t[0], t[1], env,
                                lambda en: bexpr(e.body, en), lambda en: bexpr(e.orelse, en))
        return '(if %s then %s else %s)' % (bexpr(e.test, env), bexpr(e.body, env), bexpr(e.orelse, env))
    raise Unsupported('boolean expression ' + ast.dump(e))


def block(stmts, env):
    stmts = [s for s in stmts
             if not (isinstance(s, ast.Expr) and isinstance(s.value, ast.Constant))]
    if not stmts:
        raise Unsupported('falls off the end without return')
    s, rest = stmts[0], stmts[1:]
    if isinstance(s, ast.Return) and s.value is not None:
        return bexpr(s.value, env)
    if isinstance(s, ast.If):
        def tail(body):
            return lambda en: block(list(body) + rest, en)
        t = is_none_test(s.test, env)
        if t:
            return option_match(t[0], t[1], env, tail(s.body), tail(s.orelse))
        return '(if %s then %s else %s)' % (
            bexpr(s.test, env), tail(s.body)(env), tail(s.orelse)(env))
    raise Unsupported('statement ' + ast.dump(s))


def main():
    src = open(SRC).read()
    tree = ast.parse(src)
    out = ['(* GENERATED from Python/dawgie/db/basis.py by tools/translate/range2coq.py -- do not edit *)',
           'From Coq Require Import ZArith Bool.',
           'Open Scope Z_scope.', 'Open Scope bool_scope.',
           '(* Range(start, stop): stop = None is an open range *)',
           'Definition rng := (Z * option Z)%type.']
    cls = [n for n in tree.body if isinstance(n, ast.ClassDef) and n.name == 'Range'][0]
    # the dataclass fields must be exactly start:int=0, stop:int=None, frozen
    fields = [ast.unparse(n) for n in cls.body if isinstance(n, ast.AnnAssign)]
    if fields != ['start: int = 0', 'stop: int = None']:
        raise Unsupported('Range fields changed: %r' % fields)
    deco = [ast.unparse(d) for d in cls.decorator_list]
    if deco != ['dataclasses.dataclass(frozen=True)']:
        raise Unsupported('Range decorators changed: %r' % deco)
    fns = {n.name: n for n in cls.body if isinstance(n, ast.FunctionDef)}
    extra = sorted(set(fns) - {'__contains__', '__ge__'})
    if extra:
        raise Unsupported('Range has methods the model does not know: %r' % extra)
    for name, coq, iv in (('__contains__', 'rng_contains', 'm'), ('__ge__', 'rng_ge', 'o')):
        fn = fns[name]
        args = [a.arg for a in fn.args.args]
        if len(args) != 2:
            raise Unsupported(name + ': arity')
        env = Env({args[0]: 'r'}, {args[1]: iv})
        seg = ast.get_source_segment(src, fn)
        out.append('(* Range.%s sha256=%s *)' % (name, hashlib.sha256(seg.encode()).hexdigest()[:16]))
        out.append('Definition %s (r : rng) (%s : Z) : bool :=\n  %s.' % (coq, iv, block(fn.body, env)))
    # the covered-index test inside SearchFacade._scrub
    fac = [n for n in tree.body if isinstance(n, ast.ClassDef) and n.name == 'SearchFacade'][0]
    scrub = [n for n in fac.body if isinstance(n, ast.FunctionDef) and n.name == '_scrub'][0]
    gens = [n for n in ast.walk(scrub)
            if isinstance(n, ast.Call) and isinstance(n.func, ast.Name) and n.func.id == 'any'
            and len(n.args) == 1 and isinstance(n.args[0], ast.GeneratorExp)]
    if len(gens) != 1:
        raise Unsupported('_scrub: expected exactly one any(<generator>), found %d' % len(gens))
    g = gens[0].args[0]
    if (len(g.generators) != 1 or g.generators[0].ifs or g.generators[0].is_async
            or not isinstance(g.generators[0].target, ast.Name)
            or ast.unparse(g.generators[0].iter) != 'ranges'):
        raise Unsupported('_scrub: generator shape changed: ' + ast.unparse(g))
    rv = g.generators[0].target.id
    # the enclosing loop variable (the index being tested)
    loops = [n for n in ast.walk(scrub) if isinstance(n, ast.For)
             and any(x is gens[0] for x in ast.walk(n))]
    inner = loops[-1] if loops else None
    if inner is None or not isinstance(inner.target, ast.Name) or ast.unparse(inner.iter) != 'indices':
        raise Unsupported('_scrub: the covered test is no longer inside `for i in indices`')
    seg = ast.get_source_segment(src, g)
    out.append('(* _scrub covered-index test sha256=%s *)' % hashlib.sha256(seg.encode()).hexdigest()[:16])
    out.append('Definition scrub_covers (r : rng) (i : Z) : bool :=\n  %s.'
               % bexpr(g.elt, Env({rv: 'r'}, {inner.target.id: 'i'})))
    print('\n'.join(out))


if __name__ == '__main__':
    try:
        main()
    except Unsupported as e:
        sys.stderr.write('range2coq: unsupported source construct: %s\n' % e)
        sys.exit(2)
    except (KeyError, IndexError, SyntaxError, AttributeError) as e:
        sys.stderr.write('range2coq: source shape changed: %r\n' % e)
        sys.exit(2)
