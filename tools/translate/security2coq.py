'''security2coq.py -- fail-closed translation of the ACCESS DECISION of the
DAWGIE front end to Gallina (coq/Gen/SecurityGen.v).  Statement/expression
fragment: pyfrag.py + pyfrag_fx.py.

Translated from $VERIF_REPO/Python/dawgie:

  security.py   is_sanctioned(endpoint, cert)   -> is_sanctioned clients endpoint cert
                sanctioned(endpoint, cert)      -> sanctioned hook endpoint cert
                identity(of_cert)               -> identity ihook of_cert
  fe/basis.py   DynamicContent.__init__         -> init_methods   (the `self.__methods =` statement;
                                                   __fnc / __uri are bound once, to the arguments)
                DynamicContent.__render         -> render hook has_gpc tc uri methods method : route
                DynamicContent.render_<VERB>    -> verb_table     (which HttpMethod each passes)

What stands for the world outside the decision (declared here, nowhere else):

  clients()                              the truth value of the list `_certs.copy()`
                                         (clients() itself is checked to be that copy): clients_
  _lookup(context.sanction_override)(endpoint, cert)
                                         call_hook hook_ endpoint_ cert_ : option bool
                                         hook = None: the lookup raises; f e c = None: the hook
                                         raises; Some b: the truth value of what it returns
  _lookup(context.identity_override)(of_cert)     call_ident ihook_ of_cert_ : option string
  'getPeerCertificate' in dir(request.transport)  has_gpc_ : bool
  request.transport.getPeerCertificate()          tc_ : option A
  self.__methods.count(method)           count_m (prelude)
  the three ways __render can end:       R_denied  = the reply built in the branch of the failed
                                                     check (pinned text: it never mentions __fnc)
                                         R_handler = `resp = self.__fnc(**kwds)` inside the pinned
                                                     try/except Exception
                                         R_err     = `resp = self.__err(method)`
  statements of __render that cannot change which of the three happens are PINNED by their exact
  text (signature inspection, keyword collection, DeferContainer bookkeeping); logging is skipped.
Anything else: exit 2.'''
import ast
import hashlib
import os
import sys

sys.path.insert(0, os.path.dirname(os.path.abspath(__file__)))
import pyfrag                                        # noqa: E402
from pyfrag import Unsupported                        # noqa: E402
from pyfrag_fx import TrX, is_log_call, qstr          # noqa: E402

REPO = os.environ.get('VERIF_REPO', '/repo')
PKG = os.path.join(REPO, 'Python', 'dawgie')

pyfrag.GTYPE.update({'cert': 'A', 'hookt': '(hook A)', 'ihookt': '(ihook A)', 'method': 'method',
                     'route': 'route'})

PRELUDE = '''From Coq Require Import List String Bool Arith.
From DV Require Import Gen.AccessTable.
Import ListNotations.
Local Open Scope string_scope.
Local Open Scope bool_scope.
(* ---- fixed prelude of the translation ---- *)
Definition is_none {A : Type} (o : option A) : bool := match o with None => true | Some _ => false end.
(* context.sanction_override: None = looking it up raises; f e c = None = the hook raises *)
Definition hook (A : Type) : Type := option (string -> option A -> option bool).
Definition call_hook {A : Type} (h : hook A) (e : string) (c : option A) : option bool :=
  match h with None => None | Some f => f e c end.
Definition ihook (A : Type) : Type := option (option A -> option string).
Definition call_ident {A : Type} (h : ihook A) (c : option A) : option string :=
  match h with None => None | Some f => f c end.
(* list.count *)
Fixpoint count_m (m : method) (l : list method) : nat :=
  match l with [] => 0 | x :: r => (if method_eqb m x then 1 else 0) + count_m m r end.
(* the three ways DynamicContent.__render ends *)
Inductive route : Set := R_denied | R_handler | R_err.
(* ---- translated functions ---- *)
Section Sec.
Context {A : Type}.'''

# statements of __render that do not take part in the decision: exact text
PINNED_RENDER = [
    'sig = inspect.signature(self.__fnc)',
    'kwds = {}',
    "for ak in request.args.keys():\n    if ak.decode() in sig.parameters:\n"
    "        kwds[ak.decode()] = [a.decode() for a in request.args[ak]]",
    'if isinstance(self.__fnc, DeferContainer):\n    self.__fnc.identity = dawgie.security.identity(cert)\n'
    '    self.__fnc.request = request',
]
# the branch taken when the check fails: exact text (it does not mention self.__fnc)
PINNED_DENIED = [
    "msg = f'The endpoint {self.__uri} requires a client certficate to be provided and that "
    "certificate be known to this service.'",
    'response = build_return_object(None, Status.FAILURE, msg, False)',
    "response.update({'alert_status': 'danger', 'alert_message': msg})",
]
DENIED_RETURN = 'json.dumps(response).encode()'
INVOKE_TRY = ("try:\n    resp = self.__fnc(**kwds)\nexcept Exception as e:\n"
              "    LOG.exception('Unhandled dynamic front end excpetion')\n"
              "    resp = build_return_object(None, Status.ERROR, str(e))")


def sha(src, node):
    return hashlib.sha256(ast.get_source_segment(src, node).encode()).hexdigest()[:16]


def fn_of(tree, name):
    fns = [n for n in tree.body if isinstance(n, ast.FunctionDef) and n.name == name]
    if len(fns) != 1:
        raise Unsupported('%s not found exactly once' % name)
    if fns[0].decorator_list:
        raise Unsupported('%s is decorated' % name)
    return fns[0]


def sig(fn, want):
    a = fn.args
    got = [x.arg for x in a.args]
    if got != want or a.vararg or a.kwarg or a.kwonlyargs or a.posonlyargs or a.defaults:
        raise Unsupported('%s%r: the translation knows %r without defaults' % (fn.name, got, want))


def implicit(text, name):
    return text


def security(out):
    path = os.path.join(PKG, 'security.py')
    src = open(path).read()
    tree = ast.parse(src)
    # clients() is the plain copy of _certs; _lookup is import + getattr
    cl = fn_of(tree, 'clients')
    body = pyfrag.strip_doc(cl.body)
    if len(body) != 1 or not isinstance(body[0], ast.Return) or ast.unparse(body[0].value) != '_certs.copy()':
        raise Unsupported('clients() is no longer `return _certs.copy()`')
    lk = fn_of(tree, '_lookup')
    if [ast.unparse(s) for s in pyfrag.strip_doc(lk.body)] != [
            "name = fullname.split('.')", "modname = '.'.join(name[:-1])", 'fncname = name[-1]',
            'mod = importlib.import_module(modname)', 'return getattr(mod, fncname)']:
        raise Unsupported('_lookup changed')
    for nm in ('is_sanctioned', 'sanctioned', 'identity', '_lookup', 'clients'):
        if sum(1 for n in ast.walk(tree) if isinstance(n, (ast.FunctionDef, ast.ClassDef)) and n.name == nm) != 1:
            raise Unsupported('%s defined more than once' % nm)
        for n in ast.walk(tree):
            if isinstance(n, (ast.Assign, ast.AugAssign, ast.Global)) and nm in ast.unparse(n).split('=')[0].split():
                raise Unsupported('%s is rebound' % nm)

    def neutral(s):
        return isinstance(s, (ast.Import, ast.ImportFrom)) or is_log_call(s)

    def r_hook(args):
        if [t for _, t in args] != ['string', ('opt', 'cert')]:
            raise Unsupported('arguments of the sanction hook: %r' % (args,))
        return '(call_hook hook_ %s %s)' % (args[0][0], args[1][0]), 'bool'

    def r_ident(args):
        if [t for _, t in args] != [('opt', 'cert')]:
            raise Unsupported('arguments of the identity hook: %r' % (args,))
        return '(call_ident ihook_ %s)' % args[0][0], 'string'

    tr = TrX(neutral=neutral,
             FUNCS={'clients': ([], 'bool', False)},
             RAISING={'_lookup(dawgie.context.sanction_override)': r_hook,
                      '_lookup(dawgie.context.identity_override)': r_ident})
    tr.FNAME['clients'] = 'clients_'

    fn = fn_of(tree, 'is_sanctioned')
    sig(fn, ['endpoint', 'cert'])
    text, ty, raises = tr.function(
        fn, 'is_sanctioned', [('clients', 'bool'), ('endpoint', 'string'), ('cert', ('opt', 'cert'))], ret='bool')
    if raises:
        raise Unsupported('is_sanctioned may raise')
    out.append('(* security.is_sanctioned sha256=%s ; clients_ = bool(security.clients()) *)' % sha(src, fn))
    out.append(text)

    fn = fn_of(tree, 'sanctioned')
    sig(fn, ['endpoint', 'cert'])
    text, ty, raises = tr.function(
        fn, 'sanctioned', [('hook', 'hookt'), ('endpoint', 'string'), ('cert', ('opt', 'cert'))], ret='bool')
    if raises:
        raise Unsupported('sanctioned may raise')
    out.append('(* security.sanctioned sha256=%s *)' % sha(src, fn))
    out.append(text)

    fn = fn_of(tree, 'identity')
    sig(fn, ['of_cert'])
    text, ty, raises = tr.function(
        fn, 'identity', [('ihook', 'ihookt'), ('of_cert', ('opt', 'cert'))], ret='string')
    if raises:
        raise Unsupported('identity may raise')
    out.append('(* security.identity sha256=%s *)' % sha(src, fn))
    out.append(text)


def http_methods(tree):
    cls = [n for n in tree.body if isinstance(n, ast.ClassDef) and n.name == 'HttpMethod']
    if len(cls) != 1:
        raise Unsupported('class HttpMethod not found exactly once')
    names = []
    for s in cls[0].body:
        if isinstance(s, ast.Assign) and len(s.targets) == 1 and isinstance(s.targets[0], ast.Name) \
                and isinstance(s.value, ast.Constant):
            names.append(s.targets[0].id)
        elif not (isinstance(s, ast.Pass) or (isinstance(s, ast.Expr) and isinstance(s.value, ast.Constant))):
            raise Unsupported('HttpMethod body: ' + ast.dump(s))
    return names


def basis(out):
    path = os.path.join(PKG, 'fe', 'basis.py')
    src = open(path).read()
    tree = ast.parse(src)
    methods = http_methods(tree)
    consts = {'HttpMethod.' + m: ('M_' + m, 'method') for m in methods}
    cls = [n for n in tree.body if isinstance(n, ast.ClassDef) and n.name == 'DynamicContent']
    if len(cls) != 1:
        raise Unsupported('class DynamicContent not found exactly once')
    cls = cls[0]
    if [ast.unparse(b) for b in cls.bases] != ['BaseResource']:
        raise Unsupported('bases of DynamicContent changed')
    fns = {}
    for n in cls.body:
        if isinstance(n, ast.FunctionDef):
            if n.name in fns or n.decorator_list:
                raise Unsupported('DynamicContent.%s defined twice / decorated' % n.name)
            fns[n.name] = n
        elif not (isinstance(n, ast.Pass) or (isinstance(n, ast.Expr) and isinstance(n.value, ast.Constant))
                  or ast.unparse(n) == 'isLeaf = True'):
            raise Unsupported('DynamicContent body statement ' + ast.unparse(n)[:60])
    known = {'__init__', '__err', '__render', 'render_GET', 'render_POST', 'render_PUT', 'render_DELETE'}
    if set(fns) != known:
        raise Unsupported('methods of DynamicContent changed: %s' % sorted(set(fns) ^ known))
    # the three private attributes are bound exactly once, in __init__, to the arguments
    binds = {}
    for n in ast.walk(cls):
        tgts = []
        if isinstance(n, ast.Assign):
            tgts = n.targets
        elif isinstance(n, (ast.AugAssign, ast.AnnAssign)):
            tgts = [n.target]
        elif isinstance(n, ast.Delete):
            tgts = n.targets
        for t in tgts:
            for x in (t.elts if isinstance(t, (ast.Tuple, ast.List)) else [t]):
                if isinstance(x, ast.Starred):
                    x = x.value
                if isinstance(x, ast.Attribute) and x.attr in ('__fnc', '__uri', '__methods', '__err', '__render'):
                    binds.setdefault(x.attr, []).append(n)
        if isinstance(n, ast.Call) and ast.unparse(n.func) in ('setattr', 'delattr', 'self.__dict__.update',
                                                              'self.__setattr__'):
            raise Unsupported('DynamicContent uses ' + ast.unparse(n.func))
    init = fns['__init__']
    top = {ast.unparse(s) for s in init.body}
    for a, want in (('__fnc', 'self.__fnc = fnc'), ('__uri', 'self.__uri = uri')):
        if len(binds.get(a, [])) != 1 or want not in top:
            raise Unsupported('self.%s is not bound exactly once by `%s`' % (a, want))
    if len(binds.get('__methods', [])) != 1 or binds['__methods'][0] not in init.body:
        raise Unsupported('self.__methods is not bound exactly once at the top of __init__')
    if binds.get('__err') or binds.get('__render'):
        raise Unsupported('__err/__render rebound')
    if [x.arg for x in init.args.args] != ['self', 'fnc', 'uri', 'methods'] \
            or [ast.unparse(d) for d in init.args.defaults] != ['None']:
        raise Unsupported('DynamicContent.__init__ signature')
    # fnc / uri / methods must not be rebound before those statements
    seen = []
    for s in init.body:
        txt = ast.unparse(s)
        if txt in ('self.__fnc = fnc', 'self.__uri = uri') or s is binds['__methods'][0]:
            seen.append(txt)
            if len(seen) == 3:
                break
        elif txt == 'super().__init__()':
            continue
        else:
            raise Unsupported('__init__: `%s` before the three attributes are bound' % txt[:60])
    tr = TrX(CONSTS=dict(consts), neutral=is_log_call)
    ms = binds['__methods'][0]
    if not (isinstance(ms, ast.Assign) and ast.unparse(ms.targets[0]) == 'self.__methods'):
        raise Unsupported('binding of self.__methods')
    f2 = ast.FunctionDef(name='init_methods', args=ast.arguments(
        posonlyargs=[], args=[ast.arg('methods')], kwonlyargs=[], kw_defaults=[], defaults=[]),
        body=[ast.Return(ms.value)], decorator_list=[])
    text, ty, raises = tr.function(f2, 'init_methods', [('methods', ('list', 'method'))], ret=('list', 'method'))
    out.append('(* DynamicContent.__init__ sha256=%s : self.__methods (None and [] are both falsy: '
               'an omitted argument is []) *)' % sha(src, init))
    out.append(text)

    # ---- __render ------------------------------------------------------------
    rd = fns['__render']
    if [x.arg for x in rd.args.args] != ['self', 'request', 'method'] or rd.args.defaults:
        raise Unsupported('__render signature')
    body = pyfrag.strip_doc(rd.body)
    pinned = list(PINNED_RENDER)
    keep = []
    for s in body:
        txt = ast.unparse(s)
        if txt in pinned:
            pinned.remove(txt)
            continue
        if txt == INVOKE_TRY:
            raise Unsupported('handler call outside the method test')
        keep.append(s)
    if pinned:
        raise Unsupported('__render: pinned statement missing or changed: %r' % pinned[0][:60])
    # the handler is called in exactly one place
    calls = [n for n in ast.walk(rd) if isinstance(n, ast.Call) and '__fnc' in ast.unparse(n.func)]
    if [ast.unparse(c) for c in calls] != ['self.__fnc(**kwds)']:
        raise Unsupported('__render calls the handler %d times' % len(calls))

    class Rw(ast.NodeTransformer):
        def visit_Try(self, n):
            if ast.unparse(n) == INVOKE_TRY:
                return ast.parse('resp = __invoked__').body[0]
            return n

        def visit_If(self, n):
            self.generic_visit(n)
            if ast.unparse(n.test) == 'not dawgie.security.sanctioned(self.__uri, cert)':
                b = [ast.unparse(s) for s in n.body]
                if b != PINNED_DENIED + ['return ' + DENIED_RETURN] or n.orelse:
                    raise Unsupported('the branch of the failed access check changed')
                n.body = [ast.parse('return __denied__').body[0]]
            return n
    keep = [Rw().visit(s) for s in keep]
    for s in keep:
        for n in ast.walk(s):
            if isinstance(n, ast.Call) and 'sanctioned' in ast.unparse(n.func) \
                    and ast.unparse(n) != 'dawgie.security.sanctioned(self.__uri, cert)':
                raise Unsupported('access check called in another way: ' + ast.unparse(n))

    def m_count(r, a):
        if len(a) == 1 and a[0][1] == 'method':
            return '(count_m %s %s)' % (a[0][0], r), 'nat'
        raise Unsupported('count of %r' % (a,))

    def r_none(args):
        raise Unsupported('no raising call expected in __render')

    tr = TrX(CONSTS=dict(consts, **{
        "'getPeerCertificate' in dir(request.transport)": ('has_gpc_', 'bool'),
        'request.transport.getPeerCertificate()': ('tc_', ('opt', 'cert')),
        'dawgie.security.sanctioned(self.__uri, cert)': None,     # filled below (needs env)
        '__invoked__': ('R_handler', 'route'),
        '__denied__': ('R_denied', 'route'),
        'self.__err(method)': ('R_err', 'route'),
    }), METHODS={('list', 'count'): m_count}, ATTR={'self.__uri': 'uri', 'self.__methods': 'methods'},
        neutral=is_log_call)
    del tr.CONSTS['dawgie.security.sanctioned(self.__uri, cert)']
    base_expr = tr.expr

    def expr(e, env):
        if ast.unparse(e) == 'dawgie.security.sanctioned(self.__uri, cert)':
            if env.get('cert') != ('opt', 'cert') or env.get('uri') != 'string':
                raise Unsupported('arguments of the access check')
            return '(sanctioned hook_ uri_ cert_)', 'bool'
        return base_expr(e, env)
    tr.expr = expr
    f2 = ast.FunctionDef(name='render', args=rd.args, body=keep, decorator_list=[])
    text, ty, raises = tr.function(
        f2, 'render', [('hook', 'hookt'), ('has_gpc', 'bool'), ('tc', ('opt', 'cert')), ('uri', 'string'),
                       ('methods', ('list', 'method')), ('method', 'method')], ret='route')
    if raises:
        raise Unsupported('__render may raise')
    out.append('(* DynamicContent.__render sha256=%s *)' % sha(src, rd))
    out.append(text)
    out.append('End Sec.')

    # ---- render_<VERB> ---------------------------------------------------------
    table = []
    for name in ('render_GET', 'render_POST', 'render_PUT', 'render_DELETE'):
        fn = fns[name]
        b = pyfrag.strip_doc(fn.body)
        if [x.arg for x in fn.args.args] != ['self', 'req'] or len(b) != 1 or not isinstance(b[0], ast.Return):
            raise Unsupported(name + ' shape')
        c = b[0].value
        if not (isinstance(c, ast.Call) and ast.unparse(c.func) == 'self.__render' and len(c.args) == 2
                and not c.keywords and ast.unparse(c.args[0]) == 'req' and ast.unparse(c.args[1]) in consts):
            raise Unsupported(name + ' does not return self.__render(req, HttpMethod.X)')
        table.append((name[len('render_'):], consts[ast.unparse(c.args[1])][0]))
    # BaseResource.render only delegates to twisted's dispatch
    br = [n for n in tree.body if isinstance(n, ast.ClassDef) and n.name == 'BaseResource']
    if len(br) != 1 or [ast.unparse(b) for b in br[0].bases] != ['twisted.web.resource.Resource']:
        raise Unsupported('BaseResource changed')
    for n in br[0].body:
        if isinstance(n, ast.FunctionDef) and n.name != 'render':
            raise Unsupported('BaseResource defines ' + n.name)
        if isinstance(n, ast.FunctionDef):
            t = pyfrag.strip_doc(n.body)
            if len(t) != 1 or not isinstance(t[0], ast.Try) or ast.unparse(t[0].body[0]) != 'return super().render(request)':
                raise Unsupported('BaseResource.render changed')
            for h in t[0].handlers:
                for x in ast.walk(h):
                    if isinstance(x, ast.Call) and ('render' in ast.unparse(x.func) or '__fnc' in ast.unparse(x.func)):
                        raise Unsupported('BaseResource.render handler calls ' + ast.unparse(x.func))
    out.append('(* DynamicContent.render_<VERB>: the HttpMethod each hands to __render *)')
    out.append('Definition verb_table : list (string * method) := [%s].'
               % '; '.join('(%s, %s)' % (qstr(v), m) for v, m in table))


def main():
    out = ['(* GENERATED by tools/translate/security2coq.py from Python/dawgie/{security.py,fe/basis.py}'
           ' -- do not edit *)', PRELUDE]
    security(out)
    basis(out)
    print('\n'.join(out))


if __name__ == '__main__':
    try:
        main()
    except Unsupported as e:
        sys.stderr.write('security2coq: unsupported source construct: %s\n' % e)
        sys.exit(2)
    except (KeyError, IndexError, SyntaxError, AttributeError, TypeError, OSError) as e:
        sys.stderr.write('security2coq: source shape changed: %r\n' % e)
        sys.exit(2)
