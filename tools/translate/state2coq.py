'''state2coq.py -- fail-closed translation of the method bodies of class FSM of
dawgie/pl/state.py to Gallina (coq/Gen/StateGen.v), over the state record of
coq/Model/Fsm.v.  Expressions and tests go through pyfrag.py (Tr.expr /
Tr.branch: `is None` tests become a `match` that refines the variable); the
statements are translated here in continuation style (the rest of the block is
copied into both branches of an `if`, so no join is needed) into the
state-and-outcome form of Model/Fsm.v: a python exception is an [outcome]
other than Ok returned with the state as it was when it was raised.

STATE ABSTRACTION (python attribute -> field of Fsm.fstate)
  self.state                        st s            ('running' -> S_running)
  self.transitioning (property)     tr s ; a store is a call of the translated
                                    setter [set_transitioning] (may raise)
  self.__transitioning              tr s / set_tr_raw
  self.__prior                      prior s / set_prior
  self.priority                     priority (ws s) / set_priority
  self.wait_on_K  (threading.Event) get3 K (waits (ws s)) = NOT is_set():
                                    .set() -> false, .clear() -> true,
                                    .wait(self.wait_timeout) -> negb of it
  self.K_thread                     get3 K (handles (ws s)) ; `= None` clears it;
      self.K_thread = twisted.internet.threads.deferToThread(self.is_K_done)
      self.K_thread.addCallbacks(done, dawgie.pl.LogFailure(..).log)
                                    set_handle s K (Some false): a poller of
                                    kind K with body is_K_done and callback the
                                    nested done() of the same method (checked)
  d = twisted.internet.threads.deferToThread(self._B, 2) ; d.addCallbacks(done, ..)
  or d.addErrback(..)               defer s Bg_B  (a background step)
  dawgie.pl.farm.ARCHIVE            archive_flag s / set_archive
  self.T_trigger()                  fire_ s T_T   (Event.trigger of the machine:
                                    a parameter of the generated definition)
  getattr(self, self.__prior + '_trigger')()   the trigger named after __prior
                                    (NoPrior: TypeError on None; NoAttr)
  self.__doctest                    false (the model is the non-doctest mode:
                                    the doctest branch of an `if` is dropped)
  dawgie.tools.submit.Priority(x)   x : option prio is what the conversion
                                    makes of the string (None = it raises)
  dawgie.pl.farm._busy / schedule.view_doing() / schedule.que (truth values)
                                    the three booleans of the world [env]
  log.*(..), OUTSIDE calls, stores to UNMODELLED attributes: no effect.

Methods that are not translated must not touch the modelled state (scanned:
no store to a modelled attribute, no *_trigger call, no call of an effectful
translated method); their ast dump digests are printed in the header, and the
three thread bodies _archive / _pipeline / _reload are PINNED by that digest.
Anything else: Unsupported, exit 2.'''
import ast
import hashlib
import os
import sys

sys.path.insert(0, os.path.dirname(os.path.abspath(__file__)))
from pyfrag import Tr, Unsupported, mangle  # noqa: E402

REPO = os.environ.get('VERIF_REPO', '/repo')
SRC = os.path.join(REPO, 'Python/dawgie/pl/state.py')

KINDS = {'crew': 'KCrew', 'doing': 'KDoing', 'todo': 'KTodo'}
BGS = {'_pipeline': 'BgPipeline', '_navel_gaze': 'BgNavel', '_reload': 'BgReload', '_archive': 'BgArchive'}
STATUS = {'active': 'Active', 'entering': 'Entering', 'exiting': 'Exiting'}
PRIOS = ('NOW', 'CREW', 'DOING', 'TODO')

# state variables readable through pyfrag's variable mechanism (refinable by `is None`)
SVARS = {
    'self.priority': ('self_priority', ('opt', 'prio'), 'priority (ws s)'),
    'self.__prior': ('self_prior', ('opt', 'state'), 'prior s'),
    'self.crew_thread': ('self_crew_thread', ('opt', 'handle'), 'get3 KCrew (handles (ws s))'),
    'self.doing_thread': ('self_doing_thread', ('opt', 'handle'), 'get3 KDoing (handles (ws s))'),
    'self.todo_thread': ('self_todo_thread', ('opt', 'handle'), 'get3 KTodo (handles (ws s))'),
}
SDEFAULT = {k: t for k, t, _ in SVARS.values()}
SREAD = {k: r for k, _, r in SVARS.values()}

READS = {
    'self.state': ('(st s)', 'state'),
    'self.transitioning': ('(tr s)', 'status'),
    'self.__transitioning': ('(tr s)', 'status'),
    'dawgie.pl.farm.ARCHIVE': ('(archive_flag s)', 'bool'),
    'dawgie.pl.farm._busy': ('(w_busy e)', 'bool'),
    'dawgie.pl.schedule.view_doing()': ('(w_doing e)', 'bool'),
    'dawgie.pl.schedule.que': ('(w_que e)', 'bool'),
}
for _k, _c in KINDS.items():
    READS['self.wait_on_%s.wait(self.wait_timeout)' % _k] = ('(negb (get3 %s (waits (ws s))))' % _c, 'bool')
for _k, _c in STATUS.items():
    READS['Status.' + _k] = (_c, 'status')
for _p in PRIOS:
    READS['dawgie.tools.submit.Priority.' + _p] = ('P_' + _p, 'prio')

# attributes of the FSM object that are part of the model: an untranslated
# method must not store to them
MODELLED = {'transitioning', '_FSM__transitioning', '__transitioning', '__prior', 'priority', 'state',
            'crew_thread', 'doing_thread', 'todo_thread', 'wait_on_crew', 'wait_on_doing', 'wait_on_todo',
            'wait_timeout'}
UNMODELLED = {'self.changeset', 'self.open_again', 'self.time_machine'}
OUTSIDE = {'self._security()', 'self._gui()', 'self._logging()', 'dawgie.pl.farm.plow()',
           'dawgie.pl.farm.notify_all()', 'dawgie.pl.farm.clear()', 'dawgie.db.open()'}
# the outcome a `raise` statement stands for, per function
RAISE_OUTCOME = {'transitioning': 'SetterErr'}
INIT_REQUIRED = [
    'self.__transitioning = Status.active', 'self.__prior = None', 'self.priority = None',
    'self.crew_thread = None', 'self.doing_thread = None', 'self.todo_thread = None',
    'self.wait_on_crew = threading.Event()', 'self.wait_on_doing = threading.Event()',
    'self.wait_on_todo = threading.Event()', 'self.reset()', 'self.wait_timeout = 0.001',
    'self.__doctest = doctest_',
]

# the thread bodies handed to deferToThread are NOT translated: the model takes
# them as steps that complete without touching the FSM object (assumption of
# C10); they are pinned by the digest of their normalised source (ast.unparse)
PINNED = {'_archive': 'da1cf24f3f1d398b', '_pipeline': '8c1366e685e0d85d', '_reload': 'c7b545a78e04cd59'}

PRELUDE = '''From Coq Require Import List Bool Arith.
From DV Require Import Gen.FsmTable Gen.PriorityGen Model.Fsm.
Import ListNotations.
(* ---- fixed prelude of the translation ---- *)
Definition w_busy (e : env) : bool := fst (fst e).
Definition w_doing (e : env) : bool := snd (fst e).
Definition w_que (e : env) : bool := snd e.
Definition ev_set (k : pk) (s : fstate) : fstate := set_waits s (set3 k false (waits (ws s))).
Definition ev_clear (k : pk) (s : fstate) : fstate := set_waits s (set3 k true (waits (ws s))).
(* getattr(self, self.__prior + '_trigger')() *)
Definition fire_prior (fire_ : fstate -> trigger -> fstate * outcome) (s : fstate) : fstate * outcome :=
  match prior s with
  | None => (s, NoPrior)
  | Some p => match state_trigger p with None => (s, NoAttr) | Some t => fire_ s t end
  end.
(* the ghost counter of the model: a completed reset() opens a new epoch *)
Definition ghost_epoch (r : fstate * outcome) : fstate * outcome :=
  match snd r with Ok => (new_epoch (fst r), Ok) | _ => r end.
(* ---- translated methods ---- *)'''

# Event.trigger of transitions over the generated table (Gen/FsmTable.v) with
# the callbacks named there bound to the translated methods of the same name
MACHINE = '''(* ---- the machine: the table of state.dot interpreted with the translated
   callbacks (transitions.Machine: before callbacks, state change, after
   callbacks; the only hand-written part is this interpreter loop, the same
   text as [fire] of Model/Fsm.v) ---- *)
Definition gen_run_cb (rec : fstate -> trigger -> fstate * outcome) (s : fstate) (c : callback)
  : fstate * outcome :=
  match c with
%s  | Cb_fire t' => rec s t'
  end.
Fixpoint gen_run_cbs (rec : fstate -> trigger -> fstate * outcome) (s : fstate) (cs : list callback)
  : fstate * outcome :=
  match cs with
  | [] => (s, Ok)
  | c :: cs' => bind (gen_run_cb rec s c) (fun s => gen_run_cbs rec s cs')
  end.
Fixpoint gen_fire (fuel : nat) (s : fstate) (t : trigger) {struct fuel} : fstate * outcome :=
  match fuel with
  | 0 => (s, OutOfFuel)
  | S f =>
    match find_edge t (st s) with
    | None => (s, Rejected)
    | Some e =>
      bind (gen_run_cbs (gen_fire f) s (e_before e)) (fun s =>
      let s := if trigger_eqb t T_update then count_update s else s in
      gen_run_cbs (gen_fire f) (set_st s (e_dst e)) (e_after e))
    end
  end.
Definition gen_trigger (s : fstate) (t : trigger) := gen_fire FUEL s t.'''


def sha(node):
    '''digest of the normalised source (ast.unparse: no comments, no layout;
    the same under every python version, unlike ast.dump)'''
    return hashlib.sha256(ast.unparse(node).encode()).hexdigest()[:16]


def strip(body):
    return [s for s in body if not isinstance(s, ast.Pass)
            and not (isinstance(s, ast.Expr) and isinstance(s.value, ast.Constant))]


def is_log(s):
    if not (isinstance(s, ast.Expr) and isinstance(s.value, ast.Call)):
        return False
    f = s.value.func
    if not (isinstance(f, ast.Attribute) and isinstance(f.value, ast.Name) and f.value.id == 'log'
            and f.attr in ('info', 'warning', 'error', 'debug', 'critical')):
        return False
    for a in s.value.args:
        ok = isinstance(a, ast.Constant) or (
            isinstance(a, ast.Call) and isinstance(a.func, ast.Name) and a.func.id == 'str'
            and len(a.args) == 1 and isinstance(a.args[0], ast.Name))
        if not ok:
            raise Unsupported('log call with a computed argument: ' + ast.unparse(s))
    if s.value.keywords:
        raise Unsupported('log call with keywords: ' + ast.unparse(s))
    return True


class STr(Tr):
    '''pyfrag expressions over the state abstraction'''

    def __init__(self, states):
        super().__init__()
        self.states = states
        self.pure = {}        # translated side-effect free methods: name -> type

    def key(self, e):
        if isinstance(e, ast.Name):
            return e.id
        if isinstance(e, ast.Attribute):
            v = SVARS.get(ast.unparse(e))
            return v[0] if v else None
        return None

    def expr(self, e, env):
        txt = ast.unparse(e)
        if txt in READS:
            return READS[txt]
        if isinstance(e, ast.Call) and isinstance(e.func, ast.Attribute) and not e.args and not e.keywords \
                and isinstance(e.func.value, ast.Name) and e.func.value.id == 'self' and e.func.attr in self.pure:
            return '(%s s)' % e.func.attr, self.pure[e.func.attr]
        if txt.startswith('dawgie.tools.submit.Priority.max(') and isinstance(e, ast.Call) and not e.keywords:
            parts = []
            for a in e.args:
                t, ty = self.expr(a, env)
                if ty == ('opt', 'prio'):
                    parts.append(t)
                elif ty == 'prio':
                    parts.append('Some %s' % t)
                elif ty == 'none':
                    parts.append('None')
                else:
                    raise Unsupported('Priority.max of a %r' % (ty,))
            return '(prio_max [%s])' % '; '.join(parts), 'prio'
        return super().expr(e, env)

    def compare(self, e, env):
        op, l, r = e.ops[0], e.left, e.comparators[0]
        if isinstance(op, (ast.In, ast.NotIn)) and isinstance(r, ast.Tuple) and r.elts:
            parts = [self.compare(ast.Compare(l, [ast.Eq()], [x]), env)[0] for x in r.elts]
            t = '(' + ' || '.join(parts) + ')'
            return ('(negb %s)' % t if isinstance(op, ast.NotIn) else t), 'bool'
        if isinstance(op, (ast.Eq, ast.NotEq)):
            sides = []
            for x, other in ((l, r), (r, l)):
                if isinstance(x, ast.Constant) and isinstance(x.value, str):
                    ot = self.expr(other, env)[1]
                    if ot != 'state' or x.value not in self.states:
                        raise Unsupported('string %r compared with a %r' % (x.value, ot))
                    sides.append(('S_' + x.value, 'state'))
                else:
                    sides.append(self.expr(x, env))
            (a, at), (b, bt) = sides
            eqb = {'state': 'state_eqb', 'status': 'status_eqb', 'prio': 'prio_eqb'}
            if at == bt and at in eqb:
                t = '(%s %s %s)' % (eqb[at], a, b)
                return ('(negb %s)' % t if isinstance(op, ast.NotEq) else t), 'bool'
            if at in eqb or bt in eqb:
                raise Unsupported('== on %r and %r: %s' % (at, bt, ast.unparse(e)))
        return super().compare(e, env)


class Method:
    '''statements of one method, continuation style'''

    def __init__(self, tr, info, name, fn, done=None):
        self.tr, self.info, self.name, self.fn, self.done = tr, info, name, fn, done
        self.notes = []

    # -- reads ---------------------------------------------------------------
    def lets(self, node, env):
        '''`let x_ := <projection> in ` for every unrefined state variable read by node'''
        out = ''
        seen = []
        for n in ast.walk(node):
            if isinstance(n, ast.Attribute):
                v = SVARS.get(ast.unparse(n))
                if v and v[0] not in seen and env.get(v[0]) == v[1]:
                    seen.append(v[0])
                    out += 'let %s := %s in ' % (mangle(v[0]), v[2])
        return out

    def ex(self, node, env):
        t, ty = self.tr.expr(node, env)
        return self.lets(node, env), t, ty

    @staticmethod
    def fresh(env):
        '''after a change of the state: forget the refinements of the state variables'''
        en = dict(env)
        en.update(SDEFAULT)
        return en

    # -- statements ----------------------------------------------------------
    def block(self, stmts, env, k):
        stmts = [s for s in stmts]
        while stmts and (isinstance(stmts[0], ast.Pass) or (
                isinstance(stmts[0], ast.Expr) and isinstance(stmts[0].value, ast.Constant)) or is_log(stmts[0])):
            stmts = stmts[1:]
        if not stmts:
            return k(env)
        s, rest = stmts[0], stmts[1:]
        txt = ast.unparse(s)

        def cont(en):
            return self.block(rest, en, k)

        def step(text):
            '''a state change that cannot raise'''
            return 'let s := %s in\n  %s' % (text, cont(self.fresh(env)))

        def bind(text):
            '''a call that may raise'''
            return 'bind (%s) (fun s =>\n  %s)' % (text, cont(self.fresh(env)))

        if isinstance(s, ast.Return):
            if s.value is not None or strip(rest):
                raise Unsupported('%s: return with a value / before the end' % self.name)
            return k(env)
        if isinstance(s, ast.Raise):
            if self.name not in RAISE_OUTCOME:
                raise Unsupported('%s: raise' % self.name)
            return '(s, %s)' % RAISE_OUTCOME[self.name]
        if txt in OUTSIDE:
            return cont(env)
        if isinstance(s, ast.If):
            return self.if_(s, env, cont)
        if isinstance(s, ast.Try):
            return self.try_(s, env, cont)
        if isinstance(s, ast.Assign) and len(s.targets) == 1:
            tg = ast.unparse(s.targets[0])
            v = s.value
            if tg == 'dawgie.pl.farm.insights':
                return cont(env)        # the outside world (resources)
            if tg in UNMODELLED:
                for n in ast.walk(v):
                    if isinstance(n, ast.Call) and ast.unparse(n) != 'RollbackImporter()':
                        raise Unsupported('%s: call in a store to an unmodelled attribute: %s' % (self.name, txt))
                return cont(env)
            if tg == 'self.transitioning':
                p, t, ty = self.ex(v, env)
                if ty != 'status':
                    raise Unsupported('%s: transitioning = %r' % (self.name, ty))
                if 'transitioning' not in self.info:
                    raise Unsupported('setter not translated')
                return bind('%sset_transitioning s %s' % (p, t))
            if tg == 'self.__transitioning':
                p, t, ty = self.ex(v, env)
                if ty != 'status':
                    raise Unsupported('%s: __transitioning = %r' % (self.name, ty))
                return step('%sset_tr_raw s %s' % (p, t))
            if tg == 'self.__prior':
                p, t, ty = self.ex(v, env)
                t = {'state': '(Some %s)' % t, 'none': 'None', ('opt', 'state'): t}.get(ty)
                if t is None:
                    raise Unsupported('%s: __prior = %r' % (self.name, ty))
                return step('%sset_prior s %s' % (p, t))
            if tg == 'self.priority':
                p, t, ty = self.ex(v, env)
                t = {'prio': '(Some %s)' % t, 'none': 'None', ('opt', 'prio'): t}.get(ty)
                if t is None:
                    raise Unsupported('%s: priority = %r' % (self.name, ty))
                return step('%sset_priority s %s' % (p, t))
            if tg == 'dawgie.pl.farm.ARCHIVE':
                p, t, ty = self.ex(v, env)
                if ty != 'bool':
                    raise Unsupported('%s: ARCHIVE = %r' % (self.name, ty))
                return step('%sset_archive s %s' % (p, t))
            for kind, c in KINDS.items():
                if tg == 'self.%s_thread' % kind:
                    if isinstance(v, ast.Constant) and v.value is None:
                        return step('set_handle s %s None' % c)
                    return self.poller(kind, c, s, rest, env, k)
            if tg == 'd' and ast.unparse(v).startswith('twisted.internet.threads.deferToThread('):
                return self.background(s, rest, env, k)
            if isinstance(s.targets[0], ast.Name):
                p, t, ty = self.ex(v, env)
                en = dict(env)
                en[s.targets[0].id] = ty
                if ty == 'none':
                    return cont(en)
                return 'let %s := %s%s in\n  %s' % (mangle(s.targets[0].id), p, t, cont(en))
            raise Unsupported('%s: store %s' % (self.name, txt))
        if isinstance(s, ast.Expr) and isinstance(s.value, ast.Call):
            c = s.value
            if txt == "getattr(self, self.__prior + '_trigger')()":
                return bind('fire_prior fire_ s')
            f = c.func
            if isinstance(f, ast.Attribute) and isinstance(f.value, ast.Name) and f.value.id == 'self' \
                    and not c.args and not c.keywords:
                if f.attr.endswith('_trigger'):
                    return bind('fire_ s T_%s' % f.attr[:-len('_trigger')])
                if f.attr in self.info:
                    m = self.info[f.attr]
                    if m['params']:
                        raise Unsupported('%s: call of %s with parameters' % (self.name, f.attr))
                    call = '%s %ss' % (m['gname'], 'fire_ ' if m['fires'] else '')
                    return bind(call) if m['raises'] else step(call)
            for kind, kc in KINDS.items():
                if txt == 'self.wait_on_%s.set()' % kind:
                    return step('ev_set %s s' % kc)
                if txt == 'self.wait_on_%s.clear()' % kind:
                    return step('ev_clear %s s' % kc)
        raise Unsupported('%s: statement %s' % (self.name, txt))

    def if_(self, s, env, cont):
        t = ast.unparse(s.test)
        if t == 'self.__doctest':
            self.notes.append('doctest branch dropped')
            return self.block(s.orelse, env, cont)
        if t == 'not self.__doctest':
            return self.block(s.body, env, cont)
        if t == 'self.open_again':
            if any(ast.unparse(x) not in OUTSIDE for x in strip(s.body) + strip(s.orelse)):
                raise Unsupported('%s: `if self.open_again` does more than outside-world calls' % self.name)
            return cont(env)
        pre = self.lets(s.test, env)
        text, _ = self.tr.branch(s.test, env,
                                 lambda en: ('(' + self.block(s.body, en, cont) + ')', 'x'),
                                 lambda en: ('(' + self.block(s.orelse, en, cont) + ')', 'x'))
        return pre + text

    def try_(self, s, env, cont):
        '''try: <one statement with exactly one Priority(x)> except: <handler>'''
        if len(s.handlers) != 1 or s.handlers[0].type is not None or s.orelse or s.finalbody:
            raise Unsupported('%s: try statement other than try/bare except' % self.name)
        body = strip(s.body)
        if len(body) != 1:
            raise Unsupported('%s: try body of %d statements' % (self.name, len(body)))
        calls = [n for n in ast.walk(body[0]) if isinstance(n, ast.Call)
                 and ast.unparse(n.func) == 'dawgie.tools.submit.Priority']
        if len(calls) != 1 or len(calls[0].args) != 1 or not isinstance(calls[0].args[0], ast.Name) \
                or env.get(calls[0].args[0].id) != 'prioarg':
            raise Unsupported('%s: try body without exactly one Priority(<argument>)' % self.name)
        arg = calls[0].args[0].id
        others = [n for n in ast.walk(body[0]) if isinstance(n, ast.Call) and n is not calls[0]
                  and not ast.unparse(n.func) == 'dawgie.tools.submit.Priority.max']
        if others:
            raise Unsupported('%s: other calls in the try body' % self.name)

        class R(ast.NodeTransformer):
            def visit_Call(self, n):
                if n is calls[0]:
                    return ast.Name('conv', ast.Load())
                return self.generic_visit(n)
        stmt = ast.fix_missing_locations(R().visit(body[0]))
        en = dict(env)
        en['conv'] = 'prio'
        yes = self.block([stmt], en, cont)
        no = self.block(s.handlers[0].body, env, cont)
        return 'match %s with\n  | Some conv_ => %s\n  | None => %s\n  end' % (mangle(arg), yes, no)

    def poller(self, kind, c, s, rest, env, k):
        v = ast.unparse(s.value)
        if v != 'twisted.internet.threads.deferToThread(self.is_%s_done)' % kind:
            raise Unsupported('%s: self.%s_thread = %s' % (self.name, kind, v))
        rest = strip(rest)
        want = 'self.%s_thread.addCallbacks(done, dawgie.pl.LogFailure(' % kind
        if not rest or not ast.unparse(rest[0]).startswith(want) or self.done is None \
                or not ast.unparse(rest[0]).endswith(', __name__).log)') or len(rest[0].value.args) != 2:
            raise Unsupported('%s: the poller is not given the nested done() as its callback' % self.name)
        self.notes.append('poller %s: body is_%s_done, callback %s.done' % (c, kind, self.name))
        return 'let s := set_handle s %s (Some false) in\n  %s' % (c, self.block(rest[1:], self.fresh(env), k))

    def background(self, s, rest, env, k):
        v = s.value
        if not (len(v.args) == 2 and ast.unparse(v.args[1]) == '2' and not v.keywords
                and ast.unparse(v.args[0]).startswith('self.') and ast.unparse(v.args[0])[5:] in BGS):
            raise Unsupported('%s: %s' % (self.name, ast.unparse(s)))
        body = ast.unparse(v.args[0])[5:]
        rest = strip(rest)
        nxt = ast.unparse(rest[0]) if rest else ''
        if nxt.startswith('d.addCallbacks(done, dawgie.pl.LogFailure(') and self.done is not None:
            self.notes.append('background %s: body %s, callback %s.done' % (BGS[body], body, self.name))
        elif nxt.startswith('d.addErrback(dawgie.pl.LogFailure('):
            self.notes.append('background %s: body %s, no callback' % (BGS[body], body))
        else:
            raise Unsupported('%s: the Deferred of %s gets %s' % (self.name, body, nxt))
        return 'let s := defer s %s in\n  %s' % (BGS[body], self.block(rest[1:], self.fresh(env), k))


def untouched(name, fn):
    '''an untranslated method must not touch the modelled state'''
    for n in ast.walk(fn):
        if isinstance(n, ast.Attribute) and isinstance(n.value, ast.Name) and n.value.id == 'self':
            if isinstance(n.ctx, (ast.Store, ast.Del)) and n.attr in MODELLED:
                raise Unsupported('untranslated method %s stores to self.%s' % (name, n.attr))
            if n.attr.endswith('_trigger') or n.attr in ('reset', 'save_prior_state', 'set_submit_info',
                                                         'submit_crossroads', 'archive', 'load', 'reload',
                                                         'navel_gaze', 'start', '_navel_gaze'):
                raise Unsupported('untranslated method %s uses self.%s' % (name, n.attr))
            if n.attr.startswith('wait_on_') or n.attr.startswith('wait_for_'):
                raise Unsupported('untranslated method %s uses self.%s' % (name, n.attr))
        if isinstance(n, ast.Call) and isinstance(n.func, ast.Name) and n.func.id in ('getattr', 'setattr'):
            raise Unsupported('untranslated method %s uses %s' % (name, n.func.id))
        if isinstance(n, ast.Attribute) and ast.unparse(n) == 'dawgie.pl.farm.ARCHIVE' \
                and isinstance(n.ctx, ast.Store):
            raise Unsupported('untranslated method %s stores to farm.ARCHIVE' % name)


def main():
    src = open(SRC).read()
    tree = ast.parse(src)
    cls = [n for n in tree.body if isinstance(n, ast.ClassDef) and n.name == 'FSM']
    if len(cls) != 1:
        raise Unsupported('class FSM not found')
    cls = cls[0]
    states = None
    for n in cls.body:
        if isinstance(n, ast.Assign) and ast.unparse(n.targets[0]) == 'states':
            states = [x.value for x in n.value.elts]
    if not states:
        raise Unsupported('FSM.states')
    status = [n for n in tree.body if isinstance(n, ast.ClassDef) and n.name == 'Status']
    names = [ast.unparse(x.targets[0]) for x in status[0].body if isinstance(x, ast.Assign)]
    if names != ['active', 'entering', 'exiting']:
        raise Unsupported('Status members %r' % (names,))
    meths = {}
    for n in cls.body:
        if isinstance(n, ast.FunctionDef):
            key = n.name
            if n.decorator_list:
                d = ast.unparse(n.decorator_list[0])
                key = n.name + ('.getter' if d == 'property' else '.setter' if d.endswith('.setter') else '.?')
            if key in meths:
                raise Unsupported('method %s defined twice' % key)
            meths[key] = n

    tr = STr(states)
    info = {}
    out = ['(* GENERATED by tools/translate/state2coq.py from class FSM of', '   %s -- do not edit *)' % SRC, PRELUDE]
    used = set()

    def nested_done(fn):
        d = [x for x in fn.body if isinstance(x, ast.FunctionDef)]
        if len(d) > 1 or (d and d[0].name != 'done'):
            raise Unsupported('%s: nested functions %r' % (fn.name, [x.name for x in d]))
        if d:
            a = d[0].args
            if a.args or a.defaults or not a.vararg or not a.kwarg:
                raise Unsupported('%s.done signature' % fn.name)
        return d[0] if d else None

    def emit(key, gname, params=(), body=None, env=None, done_of=None, pure=None):
        '''params: [(python name, type, gallina type)]'''
        fn = meths[key] if body is None else body
        used.add(key)
        want = ['self'] + [p[0] for p in params]
        a = fn.args
        if done_of is None:
            star = gname in ('navel_gaze_body',)       # handed to deferToThread with an argument
            if [x.arg for x in a.args] != want or a.kwonlyargs or a.defaults \
                    or bool(a.vararg) != star or bool(a.kwarg) != star:
                raise Unsupported('%s: signature' % key)
        stmts = [x for x in fn.body if not isinstance(x, ast.FunctionDef)]
        m = Method(tr, info, key.split('.')[0] if key.endswith('.setter') else gname, fn,
                   done=nested_done(fn) if done_of is None else None)
        en = dict(SDEFAULT)
        en.update({p[0]: p[1] for p in params})
        if env:
            en.update(env)
        if pure:
            # a side-effect free method: `return <expression>`
            b = strip(fn.body)
            if len(b) != 1 or not isinstance(b[0], ast.Return) or b[0].value is None:
                raise Unsupported('%s: not a single return' % key)
            p, t, ty = m.ex(b[0].value, en)
            if ty != pure:
                raise Unsupported('%s returns a %r' % (key, ty))
            sig = '(s : fstate)'
            text = 'Definition %s %s : %s :=\n  %s%s.' % (gname, sig, pure, p, t)
            tr.pure[fn.name] = pure
            info[fn.name] = {'raises': False, 'fires': False, 'params': [], 'gname': gname}
        else:
            # whether the method may raise / fires triggers is read off the translation
            text = m.block(stmts, en, lambda _e: '@END@')
            fires = 'fire_' in text
            raises = 'bind (' in text or any('(s, %s)' % o in text for o in RAISE_OUTCOME.values())
            text = text.replace('@END@', '(s, Ok)' if raises else 's')
            sig = ('(fire_ : fstate -> trigger -> fstate * outcome) ' if fires else '') + '(s : fstate)'
            for pn, _pt, gt in params:
                if gt is not None:
                    sig += ' (%s : %s)' % (mangle(pn), gt)
            text = 'Definition %s %s : %s :=\n  %s.' % (gname, sig, 'fstate * outcome' if raises else 'fstate', text)
            rec = {'raises': raises, 'fires': fires, 'params': [p[0] for p in params], 'gname': gname}
            info[gname] = rec
            if done_of is None and body is None:
                info[fn.name] = rec
        out.append('(* FSM.%s%s sha256=%s%s *)' % (key if done_of is None else done_of + '.done', '', sha(fn),
                                                   ''.join('\n   ' + x for x in m.notes)))
        out.append(text)
        return m

    # -- the property `transitioning` -------------------------------------------
    g = meths.get('transitioning.getter')
    if g is None or [ast.unparse(x) for x in strip(g.body)] != ['return self.__transitioning']:
        raise Unsupported('the getter of transitioning is not `return self.__transitioning`')
    used.add('transitioning.getter')
    meths['transitioning.setter'].name = 'transitioning'
    emit('transitioning.setter', 'set_transitioning', [('status', 'status', 'status')])
    info['transitioning'] = info['set_transitioning']
    # -- __init__: the initial values the model starts from ------------------------
    init = [ast.unparse(x) for x in meths['__init__'].body]
    for r in INIT_REQUIRED:
        if r not in init:
            raise Unsupported('__init__ no longer contains `%s`' % r)
    if [x.arg for x in meths['__init__'].args.args] != ['self', 'initial_state', 'doctest_']:
        raise Unsupported('__init__ signature')
    used.add('__init__')
    # -- pure tests ---------------------------------------------------------------------
    emit('is_pipeline_active', 'is_pipeline_active', pure='bool')
    for kind in KINDS:
        emit('waiting_on_' + kind, 'waiting_on_' + kind, pure='bool')
    # -- bookkeeping ---------------------------------------------------------------------
    emit('reset', 'reset')
    emit('save_prior_state', 'save_prior_state')
    emit('set_submit_info', 'set_submit_info',
         [('changeset', 'changeset', None), ('priority', 'prioarg', 'option prio')])
    # -- waiters --------------------------------------------------------------------------
    for kind in KINDS:
        fn = meths['wait_for_' + kind]
        d = nested_done(fn)
        if d is None:
            raise Unsupported('wait_for_%s has no done()' % kind)
        emit('wait_for_' + kind, 'done_' + kind, body=d, done_of='wait_for_' + kind)
        emit('wait_for_' + kind, 'wait_for_' + kind)
    emit('wait_for_nothing', 'wait_for_nothing')
    emit('submit_crossroads', 'submit_crossroads')
    # -- pollers: one evaluation of the loop condition ------------------------------------------
    for kind in KINDS:
        fn = meths['is_%s_done' % kind]
        used.add('is_%s_done' % kind)
        b = strip(fn.body)
        if not (len(b) == 2 and isinstance(b[0], ast.While) and not b[0].orelse
                and isinstance(b[1], ast.Return) and b[1].value is None
                and [ast.unparse(x) for x in strip(b[0].body)] == ['time.sleep(0.2)']
                and [x.arg for x in fn.args.args] == ['self']):
            raise Unsupported('is_%s_done is no longer `while <test>: time.sleep(0.2)`' % kind)
        t, ty = tr.expr(b[0].test, dict(SDEFAULT))
        if ty != 'bool':
            raise Unsupported('is_%s_done: loop test' % kind)
        out.append('(* FSM.is_%s_done sha256=%s : the loop test *)' % (kind, sha(fn)))
        out.append('Definition is_%s_done_continues (s : fstate) (e : env) : bool :=\n  %s.' % (kind, t))
    # -- life cycle callbacks ------------------------------------------------------------------------
    for name in ('load', 'reload'):
        d = nested_done(meths[name])
        if d is None:
            raise Unsupported('%s has no done()' % name)
        emit(name, name + '_done', body=d, done_of=name)
    emit('_navel_gaze', 'navel_gaze_body')
    emit('_archive_done', 'archive_done')
    for name in ('archive', 'load', 'navel_gaze', 'reload', 'start'):
        emit(name, name)
    # -- the machine over the translated callbacks ---------------------------------------------------------
    arms = ''
    for cb in ('start', 'load', 'navel_gaze', 'save_prior_state', 'archive', 'reload', 'reset'):
        m = info[cb]
        if not m['raises'] or m['params']:
            raise Unsupported('callback %s has an unexpected shape' % cb)
        call = '%s %ss' % (m['gname'], 'rec ' if m['fires'] else '')
        arms += '  | Cb_%s => %s\n' % (cb, 'ghost_epoch (%s)' % call if cb == 'reset' else call)
    out.append(MACHINE % arms)
    # -- everything else must not touch the modelled state ------------------------------------------------
    left = sorted(set(meths) - used)
    out.append('(* not translated (checked not to touch the modelled state): %s *)'
               % ', '.join('%s sha256=%s' % (k, sha(meths[k])) for k in left))
    for kname in left:
        untouched(kname, meths[kname])
    for kname, digest in sorted(PINNED.items()):
        if kname not in meths or sha(meths[kname]) != digest:
            raise Unsupported('pinned (untranslated) thread body %s changed: ast digest %s, pinned %s'
                              % (kname, kname in meths and sha(meths[kname]), digest))
    arch = strip(meths['_archive'].body)
    if ast.unparse(arch[-1]) != 'return' or ast.unparse(arch[-2]) != 'dawgie.db.archive(self._archive_done)':
        raise Unsupported('_archive no longer ends with dawgie.db.archive(self._archive_done)')
    print('\n'.join(out))


if __name__ == '__main__':
    try:
        main()
    except Unsupported as e:
        sys.stderr.write('state2coq: unsupported source construct: %s\n' % e)
        sys.exit(2)
    except (KeyError, IndexError, SyntaxError, AttributeError, TypeError) as e:
        sys.stderr.write('state2coq: source shape changed: %r\n' % e)
        sys.exit(2)
