'''static2coq.py -- fail-closed translation of the containment decision of
dawgie/fe/__init__.py::_static (everything up to `if found:`) to Gallina
(coq/Gen/StaticGen.v).

The loop of _static uses `continue`, `break` and three operating-system calls
that may raise inside its tests: outside the fragment of pyfrag.py (no loop
exits, no raising expression).  This script is a dedicated continuation-style
walker for exactly that shape; it shares Unsupported / the logging test with
pyfrag.py / pyfrag_fx.py and refuses everything it does not know (exit 2).

  for d in [A, B]: BODY      for_each (body ..) [a; b] state, A and B evaluated first, in order
                             (each may raise); the body maps the loop state
                             (result, found, ffn) to option (state * exit?): None = the python
                             raises, exit? = `break`; `continue` and the end of the body = no exit
  x = <OS call>              match .. with None => None | Some x_ => .. end
  if T: ..                   T over `and` / `not` / is_relative_to (lexical, pure) / is_dir() /
                             is_file() (may raise), with python's short circuit
  result += <bytes>          one more entry of the refusal text: Jail / Missing ffn
  LOG.error(..)              neutral (plain arguments)

What stands for the world outside (the lexical part of pathlib is Model/Static.v's):
  Path(x).resolve(), (d / fn).resolve(), (ffn / 'index.html').resolve()   resolve : path -> option path
  ffn.is_dir() / ffn.is_file()                                            is_dir / is_file : path -> option bool
  ffn.is_relative_to(d)      under d ffn          d / fn      join d fn        fn.lstrip('/')   lstrip_slash
  b'Error: could not find static files '          the empty list of entries
The statement `if found: <read and return open(ffn)> else: <log>` and the final `return result`
are pinned by their text (sha256 below): found = the bytes of open(ffn) are returned (Served ffn),
otherwise the refusal text (NotFound entries).'''
import ast
import hashlib
import os
import sys

sys.path.insert(0, os.path.dirname(os.path.abspath(__file__)))
from pyfrag import Unsupported, strip_doc             # noqa: E402
from pyfrag_fx import is_log_call                     # noqa: E402

REPO = os.environ.get('VERIF_REPO', '/repo')
SRC = os.path.join(REPO, 'Python/dawgie/fe/__init__.py')
# sha256 of ast.unparse of the `if found:` statement the model was written against
PIN_IF_FOUND = '4e7c173c76ce55b7'   # computed with /venv/bin/python (ast.unparse of 3.12)

RAISING = {   # python text -> (Gallina option term, names it needs as paths)
    '(d / fn).resolve()': ('resolve (join d_ fn_)', ['d']),
    "(ffn / 'index.html').resolve()": ('resolve (ffn_ ++ [INDEX])', ['ffn']),
}
ENTRIES = {
    "b'attempted jail break'": ('[Jail]', []),
    "bytes(ffn) + b'     '": ('[Missing ffn_]', ['ffn']),
}
ITER = {'Path(dawgie.context.fe_path).resolve()': 'resolve fe_path_',
        'Path(bdir).resolve()': 'resolve bdir_'}


def need(env, names, what):
    for n in names:
        if env.get(n) != 'path':
            raise Unsupported('%s: %s is not a bound path here' % (what, n))


def test(e, env):
    '''-> (Gallina text, is_option)'''
    if isinstance(e, ast.Name) and env.get(e.id) == 'bool':
        return e.id + '_', False
    if isinstance(e, ast.UnaryOp) and isinstance(e.op, ast.Not):
        t, o = test(e.operand, env)
        if o:
            return '(match %s with None => None | Some b_ => Some (negb b_) end)' % t, True
        return '(negb %s)' % t, False
    if isinstance(e, ast.BoolOp) and isinstance(e.op, ast.And):
        parts = [test(v, env) for v in e.values]
        t, o = parts[-1]
        for (a, ao) in reversed(parts[:-1]):
            if not o and not ao:
                t, o = '(%s && %s)' % (a, t), False
            elif not ao:
                t, o = '(if %s then %s else Some false)' % (a, t if o else 'Some ' + t), True
            else:
                t, o = ('(match %s with None => None | Some b_ => if b_ then %s else Some false end)'
                        % (a, t if o else 'Some ' + t)), True
        return t, o
    if isinstance(e, ast.Call) and isinstance(e.func, ast.Attribute) and isinstance(e.func.value, ast.Name) \
            and not e.keywords:
        recv, m = e.func.value.id, e.func.attr
        if m == 'is_relative_to' and len(e.args) == 1 and isinstance(e.args[0], ast.Name):
            need(env, [recv, e.args[0].id], ast.unparse(e))
            return '(under %s_ %s_)' % (e.args[0].id, recv), False
        if m in ('is_dir', 'is_file') and not e.args:
            need(env, [recv], ast.unparse(e))
            return '(%s %s_)' % (m, recv), True
    raise Unsupported('test ' + ast.unparse(e))


def exit_(env, brk):
    if env.get('result') != 'entries' or env.get('found') != 'bool':
        raise Unsupported('loop state unbound')
    ffn = 'Some ffn_' if env.get('ffn') == 'path' else 'ffn_'
    return 'Some (result_, found_, %s, %s)' % (ffn, 'true' if brk else 'false')


def ends(stmts):
    return bool(stmts) and isinstance(stmts[-1], (ast.Continue, ast.Break))


def block(stmts, env):
    if not stmts:
        return exit_(env, False)
    s, rest = stmts[0], stmts[1:]
    if is_log_call(s) or isinstance(s, ast.Pass):
        return block(rest, env)
    if isinstance(s, (ast.Continue, ast.Break)):
        if rest:
            raise Unsupported('statements after continue/break')
        return exit_(env, isinstance(s, ast.Break))
    if isinstance(s, ast.Assign) and len(s.targets) == 1 and isinstance(s.targets[0], ast.Name):
        x, v = s.targets[0].id, ast.unparse(s.value)
        if v in RAISING and x == 'ffn':
            t, names = RAISING[v]
            need(env, names, v)
            return 'match %s with None => None | Some ffn_ =>\n    %s end' % (t, block(rest, dict(env, ffn='path')))
        if x == 'found' and v in ('True', 'False'):
            return 'let found_ := %s in\n    %s' % (v.lower(), block(rest, env))
        raise Unsupported('assignment ' + ast.unparse(s))
    if isinstance(s, ast.AugAssign) and isinstance(s.op, ast.Add) and ast.unparse(s.target) == 'result':
        v = ast.unparse(s.value)
        if v not in ENTRIES:
            raise Unsupported('result += ' + v)
        t, names = ENTRIES[v]
        need(env, names, v)
        return 'let result_ := result_ ++ %s in\n    %s' % (t, block(rest, env))
    if isinstance(s, ast.If):
        t, o = test(s.test, env)
        b = block(list(s.body) + ([] if ends(s.body) else rest), env)
        e = block(list(s.orelse) + ([] if ends(s.orelse) else rest), env)
        if o:
            return ('match %s with None => None | Some c_ =>\n    if c_ then (%s)\n    else (%s) end' % (t, b, e))
        return 'if %s then (%s)\n    else (%s)' % (t, b, e)
    raise Unsupported('statement ' + ast.unparse(s)[:80])


def main():
    src = open(SRC).read()
    tree = ast.parse(src)
    fns = [n for n in tree.body if isinstance(n, ast.FunctionDef) and n.name == '_static']
    if len(fns) != 1 or fns[0].decorator_list:
        raise Unsupported('_static not found exactly once')
    fn = fns[0]
    a = fn.args
    if [x.arg for x in a.args] != ['fn', 'bdir', 'isdep', 'request'] or a.vararg or a.kwarg or a.kwonlyargs \
            or [ast.unparse(d) for d in a.defaults] != ['None']:
        raise Unsupported('_static signature')
    body = strip_doc(fn.body)
    if len(body) != 6:
        raise Unsupported('_static has %d top-level statements (the translation knows 6)' % len(body))
    if [ast.unparse(s) for s in body[:3]] != ["result = b'Error: could not find static files '",
                                              "fn = fn.lstrip('/')", 'found = False']:
        raise Unsupported('_static prologue changed')
    loop = body[3]
    if not (isinstance(loop, ast.For) and not loop.orelse and ast.unparse(loop.target) == 'd'
            and isinstance(loop.iter, ast.List) and [ast.unparse(x) for x in loop.iter.elts] == list(ITER)):
        raise Unsupported('_static loop header changed')
    for n in ast.walk(loop):
        if isinstance(n, (ast.For, ast.While)) and n is not loop:
            raise Unsupported('nested loop')
    env = {'d': 'path', 'fn': 'chars', 'result': 'entries', 'found': 'bool', 'ffn': 'opt'}
    text = block(list(loop.body), env)
    tail = body[4]
    sha = hashlib.sha256(ast.unparse(tail).encode()).hexdigest()[:16]
    if not (isinstance(tail, ast.If) and ast.unparse(tail.test) == 'found'):
        raise Unsupported('`if found:` changed')
    if sha != PIN_IF_FOUND:
        raise Unsupported('the statement `if found: ...` (what is read and returned) changed: sha %s' % sha)
    if ast.unparse(body[5]) != 'return result':
        raise Unsupported('_static no longer ends in `return result`')
    out = ['(* GENERATED by tools/translate/static2coq.py from Python/dawgie/fe/__init__.py (_static) -- do not edit *)',
           'From Coq Require Import List Bool Arith.',
           '(* the lexical part of pathlib (join, under, lstrip_slash, INDEX), the entries of the refusal',
           '   text and the outcome type are those of Model/Static.v *)',
           'From DV Require Import Model.Static.',
           'Import ListNotations.',
           '(* for x in xs: body -- None = an exception, true = break *)',
           'Fixpoint for_each {S X : Type} (body : X -> S -> option (S * bool)) (xs : list X) (s : S) : option S :=',
           '  match xs with',
           '  | [] => Some s',
           '  | x :: r => match body x s with',
           '              | None => None',
           '              | Some (s1, true) => Some s1',
           '              | Some (s1, false) => for_each body r s1',
           '              end',
           '  end.',
           'Definition lstate : Type := (list entry * bool * option path)%type.',
           'Section StaticGen.',
           '  Variable resolve : path -> option path.',
           '  Variable is_dir is_file : path -> option bool.',
           '  (* _static sha256=%s : the body of `for d in [...]` *)'
           % hashlib.sha256(ast.get_source_segment(src, fn).encode()).hexdigest()[:16],
           '  Definition body (fn_ : list nat) (d_ : path) (st_ : lstate) : option (lstate * bool) :=',
           "    let '(result_, found_, ffn_) := st_ in",
           '    ' + text + '.',
           '  (* the function up to `if found:` *)',
           '  Definition static_state (fn_ : list nat) (fe_path_ bdir_ : path) : option lstate :=',
           '    let result_ : list entry := [] in',
           '    let fn_ := lstrip_slash fn_ in',
           '    let found_ := false in',
           '    match resolve fe_path_ with None => None | Some it0_ =>',
           '    match resolve bdir_ with None => None | Some it1_ =>',
           '    for_each (body fn_) [it0_; it1_] (result_, found_, None) end end.',
           '  (* `if found:` returns the bytes of open(ffn) (pinned text sha256=%s), else `return result` *)' % sha,
           '  Definition static (fn_ : list nat) (fe_path_ bdir_ : path) : outcome :=',
           '    match static_state fn_ fe_path_ bdir_ with',
           '    | None => Raised',
           '    | Some (result_, found_, ffn_) =>',
           '        if found_ then match ffn_ with Some p => Served p | None => Raised end',
           '        else NotFound result_',
           '    end.',
           'End StaticGen.']
    print('\n'.join(out))


if __name__ == '__main__':
    try:
        main()
    except Unsupported as e:
        sys.stderr.write('static2coq: unsupported source construct: %s\n' % e)
        sys.exit(2)
    except (KeyError, IndexError, SyntaxError, AttributeError, TypeError, OSError) as e:
        sys.stderr.write('static2coq: source shape changed: %r\n' % e)
        sys.exit(2)
