'''util2coq.py -- fail-closed translation of dawgie/db/shelve/util.py
`construct`, `dissect`, `subset` and of dawgie.Version.asstring to Gallina
(coq/Gen/UtilGen.v).  The statement/expression fragment is pyfrag.py.

Strings are lists of code points (Model/Catalogue.v `name`); a python
exception is the result None.  Python built-ins are mapped to the primitives
of Model/Catalogue.v (hand-written, tied to CPython by the validation sweep
of props/gen_tie.py and the units of props/store_common.py):

    str(int)               dec_nat / dec_Z          x + y (str)    x ++ y
    int(str)               int_nat  (raises)        a == b (str)   name_eqb
    c in s (c constant)    contains c s             s.startswith(p) prefixb p s
    a, b = s.split(c)      split2 c s (raises)      d.update(e)    tupdate d e
    LocalVersion(str)      parse_ver (raises; the class body is checked to be
                           the three statements this stands for)
    dict(filter(f, d.items()))   filter f d  (the sub-dictionary)
    sep.join([a, b, c])    str_join sep [a; b; c]   (defined in the prelude)

Types come from the annotations: str -> name, int -> nat (catalogue ids),
dawgie.Version -> ver (three Z), {str: int} -> tbl, [int] -> list nat; a
parameter with default None is an option (a list parameter: None = []).
Any other construct: exit 2.'''
import ast
import hashlib
import os
import sys

sys.path.insert(0, os.path.dirname(os.path.abspath(__file__)))
from pyfrag import Tr, Unsupported, codes  # noqa: E402

REPO = os.environ.get('VERIF_REPO', '/repo')
SRC = os.path.join(REPO, 'Python/dawgie/db/shelve/util.py')
SRC_V = os.path.join(REPO, 'Python/dawgie/__init__.py')

LOCALVERSION_INIT = [
    "if isinstance(version, str):\n    version = [int(v) for v in version.split('.')]",
    'self._version_ = dawgie.VERSION(*version)',
    'return',
]

PRELUDE = '''From Coq Require Import List Arith ZArith Bool.
From DV Require Import Model.Catalogue.
Import ListNotations.
(* ---- fixed prelude of the translation ---- *)
Fixpoint str_join (sep : name) (l : list name) : name :=
  match l with
  | [] => []
  | x :: r => match r with [] => x | _ :: _ => x ++ sep ++ str_join sep r end
  end.
Definition v_design (v : ver) : Z := let '(d, _, _) := v in d.
Definition v_implementation (v : ver) : Z := let '(_, i, _) := v in i.
Definition v_bugfix (v : ver) : Z := let '(_, _, b) := v in b.
(* ---- translated functions ---- *)'''


def sha(src, node):
    return hashlib.sha256(ast.get_source_segment(src, node).encode()).hexdigest()[:16]


def ann(a):
    return ast.unparse(a) if a is not None else None


def check_sig(fn, want):
    '''[(name, annotation text, default text)]'''
    a = fn.args
    names = [x.arg for x in a.args]
    anns = [ann(x.annotation) for x in a.args]
    dfl = [None] * (len(names) - len(a.defaults)) + [ast.unparse(d) for d in a.defaults]
    got = list(zip(names, anns, dfl))
    if got != want or a.vararg or a.kwarg or a.kwonlyargs:
        raise Unsupported('%s: signature is %r, the translation knows %r' % (fn.name, got, want))


def main():
    src = open(SRC).read()
    tree = ast.parse(src)
    top = {n.name: n for n in tree.body if isinstance(n, (ast.FunctionDef, ast.ClassDef))}
    srcv = open(SRC_V).read()
    treev = ast.parse(srcv)
    vcls = [n for n in treev.body if isinstance(n, ast.ClassDef) and n.name == 'Version'][0]
    vfn = {n.name: n for n in vcls.body if isinstance(n, ast.FunctionDef)}
    out = ['(* GENERATED from %s and %s -- do not edit *)' % (SRC, SRC_V), PRELUDE]

    # -- dawgie.Version: truthiness and the accessors ---------------------------
    for bad in ('__bool__', '__len__'):
        if bad in vfn:
            raise Unsupported('dawgie.Version defines %s: `if ver:` is no longer `ver is not None`' % bad)
    want = {'design': 'self._get_ver().design', 'implementation': 'self._get_ver().impl',
            'bugfix': 'self._get_ver().bugfix', '_get_ver': 'self._version_'}
    for an, body in want.items():
        st = [x for x in vfn[an].body if not (isinstance(x, ast.Expr) and isinstance(x.value, ast.Constant))]
        if len(st) != 1 or not isinstance(st[0], ast.Return) or ast.unparse(st[0].value) != body:
            raise Unsupported('accessor %s is no longer `return %s`' % (an, body))
    vt = [n for n in treev.body if isinstance(n, ast.Assign) and ast.unparse(n.targets[0]) == 'VERSION']
    if len(vt) != 1 or "['design', 'impl', 'bugfix']" not in ast.unparse(vt[0].value).replace('"', "'"):
        raise Unsupported('VERSION namedtuple fields changed')

    def acc(field):
        return lambda r, a: (('(v_%s %s)' % (field, r), 'Z') if not a else _bad('accessor with arguments'))

    def join(r, a):
        if len(a) == 1 and a[0][1] == ('list', 'str'):
            return '(str_join %s %s)' % (r, a[0][0]), 'str'
        raise Unsupported('join of %r' % (a,))

    def startswith(r, a):
        if len(a) == 1 and a[0][1] == 'str':
            return '(prefixb %s %s)' % (a[0][0], r), 'bool'
        raise Unsupported('startswith of %r' % (a,))

    METHODS = {('ver', 'design'): acc('design'), ('ver', 'implementation'): acc('implementation'),
               ('ver', 'bugfix'): acc('bugfix'), ('str', 'join'): join, ('str', 'startswith'): startswith}

    # -- Version.asstring --------------------------------------------------------
    tr = Tr(METHODS=METHODS)
    check_sig(vfn['asstring'], [('self', None, None)])
    text, ty, raises = tr.function(vfn['asstring'], 'asstring', [('self', 'ver')], ret='str')
    if raises:
        raise Unsupported('asstring may raise')
    out.append('(* dawgie.Version.asstring sha256=%s *)' % sha(srcv, vfn['asstring']))
    out.append(text)
    METHODS[('ver', 'asstring')] = lambda r, a: (('(asstring %s)' % r, 'str') if not a else _bad('asstring with arguments'))

    # -- LocalVersion(str): checked, not translated ------------------------------
    lv = top['LocalVersion']
    if [ast.unparse(b) for b in lv.bases] != ['dawgie.Version']:
        raise Unsupported('LocalVersion bases changed')
    init = [n for n in lv.body if isinstance(n, ast.FunctionDef) and n.name == '__init__'][0]
    got = [ast.unparse(s) for s in init.body]
    if got != LOCALVERSION_INIT or [a.arg for a in init.args.args] != ['self', 'version']:
        raise Unsupported('LocalVersion.__init__ is no longer %r' % (LOCALVERSION_INIT,))
    out.append('(* LocalVersion.__init__ sha256=%s : checked to be what parse_ver models *)' % sha(src, init))

    def r_int(a):
        if len(a) == 1 and a[0][1] == 'str':
            return 'int_nat %s' % a[0][0], 'nat'
        raise Unsupported('int() of %r' % (a,))

    def r_lv(a):
        if len(a) == 1 and a[0][1] == 'str':
            return 'parse_ver %s' % a[0][0], 'ver'
        raise Unsupported('LocalVersion() of %r' % (a,))

    def m_update(r, a):
        if len(a) == 1 and a[0][1] == 'tbl':
            return '(tupdate %s %s)' % (r, a[0][0]), False
        raise Unsupported('update of %r' % (a,))

    FUNCS = {}
    tr = Tr(FUNCS=FUNCS, METHODS=METHODS, MUTATORS={('tbl', 'update'): m_update},
            RAISING={'int': r_int, 'LocalVersion': r_lv})

    # -- construct ---------------------------------------------------------------
    fn = top['construct']
    check_sig(fn, [('name', 'str', None), ('parent', 'int', 'None'), ('ver', 'dawgie.Version', 'None')])
    text, ty, raises = tr.function(
        fn, 'construct', [('name', 'str'), ('parent', ('opt', 'nat')), ('ver', ('opt', 'ver'))], ret='str')
    if raises:
        raise Unsupported('construct may raise')
    out.append('(* util.construct sha256=%s *)' % sha(src, fn))
    out.append(text)
    FUNCS['construct'] = ([('str', None), (('opt', 'nat'), 'None'), (('opt', 'ver'), 'None')], 'str', False)

    # -- dissect -----------------------------------------------------------------
    fn = top['dissect']
    check_sig(fn, [('name', 'str', None)])
    text, ty, raises = tr.function(
        fn, 'dissect', [('name', 'str')], ret=('tuple', [('opt', 'nat'), 'str', ('opt', 'ver')]))
    if not raises:
        raise Unsupported('dissect can no longer raise: the model type changes')
    out.append('(* util.dissect sha256=%s *)' % sha(src, fn))
    out.append(text)

    # -- subset ------------------------------------------------------------------
    fn = top['subset']
    check_sig(fn, [('from_table', '{str: int}', None), ('name', 'str', None), ('parents', '[int]', 'None')])
    text, ty, raises = tr.function(
        fn, 'subset', [('from_table', 'tbl'), ('name', 'str'), ('parents', ('list', 'nat'))], ret='tbl')
    if raises:
        raise Unsupported('subset may raise')
    out.append('(* util.subset sha256=%s  (parents=None is the empty list) *)' % sha(src, fn))
    out.append(text)
    print('\n'.join(out))


def _bad(msg):
    raise Unsupported(msg)


if __name__ == '__main__':
    try:
        main()
    except Unsupported as e:
        sys.stderr.write('util2coq: unsupported source construct: %s\n' % e)
        sys.exit(2)
    except (KeyError, IndexError, SyntaxError, AttributeError, TypeError) as e:
        sys.stderr.write('util2coq: source shape changed: %r\n' % e)
        sys.exit(2)
