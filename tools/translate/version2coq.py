'''py2coq.py version -- fail-closed translation of dawgie.Version's comparison
methods (/repo/Python/dawgie/__init__.py) to Gallina (coq/Gen/VersionGen.v).

Subset: a method body made of `if/elif/else`, `return`, boolean operators,
comparisons of the three accessors, `all([...])`/`any([...])`, calls of the
other translated methods.  Anything else raises Unsupported (exit 2): the
check then takes the "correspondence broken" path.'''
import ast, sys, hashlib
import os
SRC = os.path.join(os.environ.get('VERIF_REPO', '/repo'), 'Python/dawgie/__init__.py')
WANT = ['__eq__', '__ne__', '__ge__', '__gt__', '__le__', '__lt__', 'newer']
NAME = {'__eq__': 'ver_eq', '__ne__': 'ver_ne', '__ge__': 'ver_ge', '__gt__': 'ver_gt',
        '__le__': 'ver_le', '__lt__': 'ver_lt', 'newer': 'ver_newer'}
ACC = {'design': 'dsg', 'implementation': 'imp', 'bugfix': 'bug', 'impl': 'imp'}
CMP = {ast.Eq: '=?', ast.NotEq: None, ast.Lt: '<?', ast.LtE: '<=?', ast.Gt: '>?', ast.GtE: '>=?'}


class Unsupported(Exception):
    pass


def expr(e, env):
    if isinstance(e, ast.Constant) and isinstance(e.value, bool):
        return 'true' if e.value else 'false'
    if isinstance(e, ast.Constant) and type(e.value) is int:
        return '(%d)' % e.value
    if isinstance(e, ast.UnaryOp) and isinstance(e.op, ast.USub) and isinstance(e.operand, ast.Constant) and type(e.operand.value) is int:
        return '(-%d)' % e.operand.value
    if isinstance(e, ast.Call):
        f = e.func
        # self.design() / other.design()
        if isinstance(f, ast.Attribute) and isinstance(f.value, ast.Name) and f.value.id in env and f.attr in ACC and not e.args:
            return f'({ACC[f.attr]} {env[f.value.id]})'
        # self.__ge__(other)
        if isinstance(f, ast.Attribute) and isinstance(f.value, ast.Name) and f.value.id in env and f.attr in NAME and len(e.args) == 1:
            return f'({NAME[f.attr]} {env[f.value.id]} {expr_obj(e.args[0], env)})'
        # all([...]) / any([...])
        if isinstance(f, ast.Name) and f.id in ('all', 'any') and len(e.args) == 1 and isinstance(e.args[0], (ast.List, ast.Tuple)):
            op, unit = ('&&', 'true') if f.id == 'all' else ('||', 'false')
            parts = [expr(x, env) for x in e.args[0].elts]
            return '(' + f' {op} '.join(parts or [unit]) + ')'
        raise Unsupported(ast.dump(e))
    if isinstance(e, ast.Attribute) and isinstance(e.value, ast.Name) and e.value.id in env and e.attr in ACC:
        return f'({ACC[e.attr]} {env[e.value.id]})'      # than.design (VERSION namedtuple field)
    if isinstance(e, ast.Compare) and len(e.ops) == 1:
        l, r = expr(e.left, env), expr(e.comparators[0], env)
        op = type(e.ops[0])
        if op is ast.NotEq:
            return f'(negb ({l} =? {r}))'
        if op in CMP:
            return f'({l} {CMP[op]} {r})'
    if isinstance(e, ast.BoolOp):
        op = '&&' if isinstance(e.op, ast.And) else '||'
        return '(' + f' {op} '.join(expr(v, env) for v in e.values) + ')'
    if isinstance(e, ast.UnaryOp) and isinstance(e.op, ast.Not):
        return f'(negb {expr(e.operand, env)})'
    raise Unsupported(ast.dump(e))


def expr_obj(e, env):
    if isinstance(e, ast.Name) and e.id in env:
        return env[e.id]
    raise Unsupported(ast.dump(e))


def block(stmts, env, cont):
    '''translate a statement list; cont = Gallina for "fell off the end" (None = must not happen)'''
    if not stmts:
        if cont is None:
            raise Unsupported('falls off the end without return')
        return cont
    s, rest = stmts[0], stmts[1:]
    if isinstance(s, ast.Return):
        return expr(s.value, env)
    if isinstance(s, ast.If):
        k = block(rest, env, cont) if (rest or cont is not None) else None
        return f'(if {expr(s.test, env)} then {block(s.body, env, k)} else {block(s.orelse, env, k)})'
    if isinstance(s, ast.Expr) and isinstance(s.value, ast.Constant):   # docstring
        return block(rest, env, cont)
    raise Unsupported(ast.dump(s))


def main():
    src = open(SRC).read()
    tree = ast.parse(src)
    cls = [n for n in tree.body if isinstance(n, ast.ClassDef) and n.name == 'Version'][0]
    out = ['(* GENERATED from %s — do not edit *)' % SRC,
           'From Coq Require Import ZArith Bool.', 'Open Scope Z_scope.', 'Open Scope bool_scope.',
           'Definition ver := (Z * Z * Z)%type.',
           "Definition dsg (v : ver) : Z := let '(d, _, _) := v in d.",
           "Definition imp (v : ver) : Z := let '(_, i, _) := v in i.",
           "Definition bug (v : ver) : Z := let '(_, _, b) := v in b."]
    fns = {n.name: n for n in cls.body if isinstance(n, ast.FunctionDef)}
    # the accessors must be the plain projections the model assumes
    want = {'design': 'self._get_ver().design', 'implementation': 'self._get_ver().impl',
            'bugfix': 'self._get_ver().bugfix', '_get_ver': 'self._version_'}
    for an, body in want.items():
        fn = fns[an]
        stmts = [x for x in fn.body if not (isinstance(x, ast.Expr) and isinstance(x.value, ast.Constant))]
        if len(stmts) != 1 or not isinstance(stmts[0], ast.Return) or ast.unparse(stmts[0].value) != body:
            raise Unsupported('accessor %s is no longer `return %s`' % (an, body))
    vt = [n for n in tree.body if isinstance(n, ast.Assign) and ast.unparse(n.targets[0]) == 'VERSION']
    if len(vt) != 1 or "['design', 'impl', 'bugfix']" not in ast.unparse(vt[0].value).replace('"', "'"):
        raise Unsupported('VERSION namedtuple fields changed: ' + (ast.unparse(vt[0]) if vt else 'missing'))
    order = ['__eq__', '__ne__', '__ge__', '__le__', '__gt__', '__lt__', 'newer']   # callees first
    for name in order:
        fn = fns[name]
        args = [a.arg for a in fn.args.args]
        if len(args) != 2:
            raise Unsupported(name + ': arity')
        env = {args[0]: 'a', args[1]: 'b'}
        seg = ast.get_source_segment(src, fn)
        out.append('(* %s sha256=%s *)' % (name, hashlib.sha256(seg.encode()).hexdigest()[:16]))
        out.append(f'Definition {NAME[name]} (a b : ver) : bool :=\n  {block(fn.body, env, None)}.')
    print('\n'.join(out))


if __name__ == '__main__':
    try:
        main()
    except Unsupported as e:
        sys.stderr.write('py2coq: unsupported source construct: %s\n' % e)
        sys.exit(2)
    except (KeyError, IndexError, SyntaxError) as e:
        sys.stderr.write('py2coq: source shape changed: %r\n' % e)
        sys.exit(2)
