#!/usr/local/bin/python3-vt
'''validate MANIFEST.json and evidence/*.json against the schemas.'''
import glob, json, sys
import jsonschema
ok = True
def v(path, schema):
    global ok
    try:
        jsonschema.validate(json.load(open(path)), json.load(open(schema)))
    except Exception as e:
        ok = False
        print('INVALID', path, str(e)[:300])
v('/verif/MANIFEST.json', '/root/.vp/MANIFEST.schema.json')
for f in sorted(glob.glob('/verif/evidence/*.json')):
    v(f, '/root/.vp/EVIDENCE.schema.json')
print('all valid' if ok else 'PROBLEMS')
sys.exit(0 if ok else 1)
