'''vlib.core -- shared machinery of the /verif checks (stdlib only).

One check = one call of ``run_property(module)`` where ``module`` is
``props/Cxx.py``.  The module's ``run(ctx)`` uses the helpers of ``Ctx``:

  ctx.generate(...)      run a translator (tools/translate/*) -> coq/Gen/*.v
  ctx.coq_build(...)     make the .vo cone of the property (full .vo build)
  ctx.coq_props()        compile coq/Props/Cxx.v, capture `Print Assumptions`
  ctx.coq_eval(...)      evaluate model terms with vm_compute (correspondence)
  ctx.harness(...)       run a driver against the real code in /repo/Python
  ctx.violation(...)     report a failing input (known finding / VIOLATION)
  ctx.broken(...)        report a broken proof/correspondence without witness
  ctx.finish()           write evidence/Cxx.json, return the exit status

See DESIGN.md section 2 for the verdict rules.
'''

import ast
import fcntl
import glob
import hashlib
import json
import os
import re
import shutil
import subprocess
import sys
import time

VERIF = os.path.dirname(os.path.dirname(os.path.abspath(__file__)))
REPO = os.environ.get('VERIF_REPO', '/repo')
COQ = os.path.join(VERIF, 'coq')
PY = '/venv/bin/python'
GUARD = 'DAWGIE_VERIF'
COQ_TIMEOUT = int(os.environ.get('VERIF_COQ_TIMEOUT', '1500'))

FORBIDDEN = re.compile(
    r'\b(Admitted|admit|Axiom|Axioms|Parameter|Parameters|Conjecture|'
    r'Conjectures|Admit Obligations|Unset Guard Checking|bypass_check|'
    r'Unset Positivity Checking|Unset Universe Checking|native_compute)\b'
)

KERNEL_TB = [
    'Coq 8.16.1 kernel + coqc (full .vo build, no -vos); vm_compute is used '
    'to evaluate models on cases and for finite-domain lemmas; native_compute '
    'is not used',
    'no Axiom/Parameter/Admitted anywhere in /verif/coq (grep fails closed); '
    'every property theorem is followed by Print Assumptions whose output is '
    'recorded below',
]


def sh(cmd, timeout=None, cwd=None, env=None, input=None):
    p = subprocess.run(
        cmd,
        shell=isinstance(cmd, str),
        cwd=cwd,
        env=env,
        input=input,
        stdout=subprocess.PIPE,
        stderr=subprocess.STDOUT,
        timeout=timeout,
        text=True,
    )
    return p.returncode, p.stdout


# ---------------------------------------------------------------------------
# parsing of Coq's printed terms  (Eval vm_compute output)
# ---------------------------------------------------------------------------

_TOK = re.compile(
    r'\s*(?:(-?\d+)(?:%\w+)?|("(?:[^"]|"")*")(?:%\w+)?|([A-Za-z_][\w\'.]*)|(.))'
)


def _tokens(s):
    pos = 0
    out = []
    s = s.strip()
    while pos < len(s):
        m = _TOK.match(s, pos)
        if not m:
            raise ValueError('cannot tokenise at %r' % s[pos : pos + 30])
        pos = m.end()
        if m.group(1) is not None:
            out.append(('int', int(m.group(1))))
        elif m.group(2) is not None:
            out.append(('str', m.group(2)[1:-1].replace('""', '"')))
        elif m.group(3) is not None:
            out.append(('id', m.group(3)))
        else:
            out.append(('p', m.group(4)))
    return out


def parse_term(s):
    '''Coq printed term -> python: lists, tuples, ints, bools, strings,
    None/("Some", x), other constructor applications as ("C", args...).'''
    toks = _tokens(s)
    val, i = _p_app(toks, 0)
    # drop trailing scope delimiters like %Z / %list
    while i < len(toks) and toks[i] == ('p', '%'):
        i += 2
    if i != len(toks):
        raise ValueError('trailing tokens %r' % (toks[i : i + 5],))
    return val


def _p_app(t, i):
    head, i = _p_atom(t, i)
    args = []
    while i < len(t) and not (t[i][0] == 'p' and t[i][1] in '];,)%'):
        a, i = _p_atom(t, i)
        args.append(a)
    if args:
        if not (isinstance(head, tuple) and len(head) == 1):
            raise ValueError('application of non constructor %r' % (head,))
        return (head[0],) + tuple(args), i
    if isinstance(head, tuple) and len(head) == 1 and head[0] in _CONST:
        return _CONST[head[0]], i
    return head, i


_CONST = {'true': True, 'false': False, 'None': None, 'tt': (), 'nil': []}


def _p_atom(t, i):
    k, v = t[i]
    if k == 'int' or k == 'str':
        i += 1
        res = v
    elif k == 'id':
        i += 1
        res = _CONST[v] if v in _CONST else (v,)
    elif v == '[':
        i += 1
        items = []
        if t[i] == ('p', ']'):
            i += 1
        else:
            while True:
                x, i = _p_app(t, i)
                items.append(x)
                if t[i] == ('p', ';'):
                    i += 1
                    continue
                if t[i] == ('p', ']'):
                    i += 1
                    break
                raise ValueError('bad list at %r' % (t[i],))
        res = items
    elif v == '(':
        i += 1
        items = []
        while True:
            x, i = _p_app(t, i)
            items.append(x)
            if t[i] == ('p', ','):
                i += 1
                continue
            if t[i] == ('p', ')'):
                i += 1
                break
            raise ValueError('bad tuple at %r' % (t[i],))
        res = items[0] if len(items) == 1 else tuple(items)
    else:
        raise ValueError('unexpected token %r' % (t[i],))
    while i < len(t) and t[i] == ('p', '%'):
        i += 2
    return res, i


def to_coq(v, z=True):
    '''python value -> Gallina literal (ints as Z unless z=False -> nat).'''
    if v is None:
        return 'None'
    if v is True:
        return 'true'
    if v is False:
        return 'false'
    if isinstance(v, int):
        if z:
            return '(%d)%%Z' % v
        if v < 0 or v > 5000:
            raise ValueError('nat literal out of range: %r' % v)
        return '%d%%nat' % v
    if isinstance(v, str):
        return '"%s"%%string' % v.replace('"', '""')
    if isinstance(v, list):
        return '[' + '; '.join(to_coq(x, z) for x in v) + ']'
    if isinstance(v, tuple):
        if v and isinstance(v[0], str) and v[0][:1].isupper():
            return '(' + ' '.join([v[0]] + [to_coq(x, z) for x in v[1:]]) + ')'
        return '(' + ', '.join(to_coq(x, z) for x in v) + ')'
    if isinstance(v, Nat):
        return to_coq(v.n, z=False)
    if isinstance(v, Raw):
        return v.s
    raise TypeError(type(v))


class Nat:
    def __init__(self, n):
        self.n = n


class Raw:
    def __init__(self, s):
        self.s = s


# ---------------------------------------------------------------------------
# fingerprints of hand-modelled python functions
# ---------------------------------------------------------------------------


def fingerprint(relpath, qualnames):
    '''{qualname: sha256 of the normalised ast dump} for functions/classes of
    /repo/<relpath>; a missing name maps to "MISSING".'''
    path = os.path.join(REPO, relpath)
    out = {}
    try:
        src = open(path).read()
        tree = ast.parse(src)
    except (OSError, SyntaxError) as e:
        return {q: 'UNREADABLE:%s' % type(e).__name__ for q in qualnames}

    def find(body, parts):
        for n in body:
            if (
                isinstance(
                    n, (ast.FunctionDef, ast.ClassDef, ast.AsyncFunctionDef)
                )
                and n.name == parts[0]
            ):
                if len(parts) == 1:
                    return n
                return find(n.body, parts[1:])
        return None

    for q in qualnames:
        n = find(tree.body, q.split('.'))
        if n is None:
            out[q] = 'MISSING'
        else:
            # drop docstrings
            for sub in ast.walk(n):
                b = getattr(sub, 'body', None)
                if (
                    isinstance(b, list)
                    and b
                    and isinstance(b[0], ast.Expr)
                    and isinstance(getattr(b[0], 'value', None), ast.Constant)
                    and isinstance(b[0].value.value, str)
                ):
                    sub.body = b[1:] or [ast.Pass()]
            out[q] = hashlib.sha256(ast.dump(n).encode()).hexdigest()[:16]
    return out


# ---------------------------------------------------------------------------
# the per-run context
# ---------------------------------------------------------------------------


class Ctx:
    def __init__(self, pid, tier, seed, replay=None):
        self.pid = pid
        self.tier = tier
        self.seed = seed
        self.replay = replay
        self.t0 = time.time()
        self.work = os.path.join(VERIF, 'work', pid, str(os.getpid()))
        shutil.rmtree(self.work, ignore_errors=True)
        os.makedirs(self.work, exist_ok=True)
        self.exit = 0
        self.nviol = 0
        self.known_hits = {}
        self.cov = {
            'obligations': 0,
            'discharged': 0,
            'checker_cmd': '',
            'trusted_base': list(KERNEL_TB),
            'evaluations': 0,
            'distinct_nontrivial': 0,
            'rule': '',
            'samples': [],
        }
        self.assumptions = []
        self.extra = {}
        self.level = 'proof'
        self._reported = set()
        self._nontrivial = set()
        self.findings = json.load(
            open(os.path.join(VERIF, 'known_findings.json'))
        )
        self.quick = tier == 'quick'

    # -- small utilities -----------------------------------------------------
    def log(self, *a):
        print('[%s %6.1fs]' % (self.pid, time.time() - self.t0), *a, flush=True)

    def _phase(self, name, t_b):
        dt = time.time() - t_b
        ph = self.extra.setdefault('phases', {})
        key = name.split(' (')[0]
        ph[key] = round(ph.get(key, 0.0) + dt, 1)
        if dt >= 2.0:
            self.log('%-40s %6.1fs' % (name, dt))

    def n(self, quick, thorough):
        return quick if self.quick else thorough

    def note(self, key, value):
        self.cov[key] = value

    def trust(self, *lines):
        for ln in lines:
            if ln not in self.cov['trusted_base']:
                self.cov['trusted_base'].append(ln)

    def assume(self, *lines):
        for ln in lines:
            if ln not in self.assumptions:
                self.assumptions.append(ln)

    def sample(self, obj, limit=6):
        if len(self.cov['samples']) < limit:
            self.cov['samples'].append(obj)

    def count(self, evaluations=0, nontrivial_keys=()):
        self.cov['evaluations'] += evaluations
        for k in nontrivial_keys:
            self._nontrivial.add(
                hashlib.sha1(
                    json.dumps(k, sort_keys=True, default=str).encode()
                ).hexdigest()
            )
        self.cov['distinct_nontrivial'] = len(self._nontrivial)

    # -- translators ---------------------------------------------------------
    def generate(self, script, out_rel, *args):
        '''Run tools/translate/<script> (prints Gallina on stdout) and write it
        to coq/<out_rel> only when the content changed.  A translator that
        refuses the source (exit != 0) returns (False, message): the caller
        takes the "correspondence broken" path.'''
        cmd = [PY, os.path.join(VERIF, 'tools', 'translate', script)] + list(
            args
        )
        env = dict(os.environ, VERIF_REPO=REPO, PYTHONHASHSEED='0')
        p = subprocess.run(
            cmd, stdout=subprocess.PIPE, stderr=subprocess.PIPE, text=True,
            env=env,
        )
        dst = os.path.join(COQ, out_rel)
        if p.returncode != 0:
            return False, (p.stderr or p.stdout)[-2000:]
        with _lock(out_rel):
            old = open(dst).read() if os.path.exists(dst) else None
            if old != p.stdout:
                os.makedirs(os.path.dirname(dst), exist_ok=True)
                with open(dst, 'w') as f:
                    f.write(p.stdout)
        self.extra.setdefault('generated', {})[out_rel] = hashlib.sha256(
            p.stdout.encode()
        ).hexdigest()[:16]
        return True, p.stdout

    # -- Coq -----------------------------------------------------------------
    def coq_build(self, targets):
        '''compile the given .vo targets (paths relative to coq/) and
        everything they depend on, full .vo, in dependency order.  Returns
        (ok, failing_file, log).'''
        ok, bad, log, cmds = build_cone([t[:-3] + '.v' for t in targets])
        self.cov['checker_cmd'] = (
            'cd /verif/coq && for f in %s; do timeout %d coqc -q -R . DV $f; done'
            % (' '.join(cmds), COQ_TIMEOUT)
        )
        return ok, bad, log

    def coq_scan(self, files):
        '''fail-closed grep for forbidden vernacular in the given sources.'''
        hits = []
        for f in files:
            txt = open(os.path.join(COQ, f)).read()
            txt = re.sub(r'\(\*.*?\*\)', '', txt, flags=re.S)
            for m in FORBIDDEN.finditer(txt):
                hits.append('%s: %s' % (f, m.group(0)))
        return hits

    def coq_cone(self, target_v):
        '''the .v files (relative to coq/) the target depends on, itself
        included, via coqdep.'''
        seen, todo = [], [target_v]
        deps = _coqdep()
        while todo:
            f = todo.pop()
            if f in seen:
                continue
            seen.append(f)
            todo.extend(deps.get(f, []))
        return sorted(seen)

    def coq_props(self, props_rel=None, allowed_axioms=()):
        '''Build the cone of Props/Cxx.v, then compile Props/Cxx.v itself with
        coqc capturing its output.  Returns dict(ok, failing, theorems,
        assumptions{thm: text}, log).  Sets obligations/discharged.'''
        props_rel = props_rel or 'Props/%s.v' % self.pid
        src = os.path.join(COQ, props_rel)
        text = open(src).read()
        theorems = re.findall(
            r'^\s*(?:Theorem|Corollary)\s+([\w\']+)', text, flags=re.M
        )
        self.cov['obligations'] = len(theorems)
        cone = self.coq_cone(props_rel)
        self.extra['cone'] = cone
        bad = self.coq_scan(cone)
        res = {
            'ok': False,
            'failing': None,
            'theorems': theorems,
            'assumptions': {},
            'log': '',
        }
        if bad:
            res['failing'] = 'forbidden vernacular: ' + '; '.join(bad)
            res['log'] = res['failing']
            return res
        deps = [c[:-2] + '.vo' for c in cone if c != props_rel]
        t_b = time.time()
        ok, failing, log = self.coq_build(deps)
        self._phase('coq cone build', t_b)
        t_b = time.time()
        if not ok:
            res['failing'] = failing
            res['log'] = log
            return res
        with _lock(props_rel):
            vo = src[:-2] + '.vo'
            if os.path.exists(vo):
                os.unlink(vo)
            cmd = 'timeout %d coqc -q -R . DV %s' % (COQ_TIMEOUT, props_rel)
            rc, out = sh(cmd, cwd=COQ)
        self.cov['checker_cmd'] += ' && ' + cmd
        self._phase('coq props ' + props_rel, t_b)
        res['log'] = out[-6000:]
        if rc != 0:
            res['failing'] = props_rel
            m = re.search(r'line (\d+)', out)
            if m:
                ln = int(m.group(1))
                before = text.split('\n')[:ln]
                names = re.findall(
                    r'^\s*(?:Theorem|Corollary|Example|Lemma)\s+([\w\']+)',
                    '\n'.join(before),
                    flags=re.M,
                )
                if names:
                    res['failing'] = props_rel + ':' + names[-1]
            return res
        # Print Assumptions blocks come in order
        blocks = re.findall(
            r'(Closed under the global context|Axioms:\n(?:.+\n?)+?(?=\n\S|\Z))',
            out,
        )
        printed = re.findall(r'Print Assumptions\s+([\w\']+)', text)
        for name, blk in zip(printed, blocks):
            res['assumptions'][name] = blk.strip()
        missing = [t for t in theorems if t not in res['assumptions']]
        if missing or len(blocks) != len(printed):
            res['failing'] = props_rel + ': Print Assumptions missing for %s' % (
                missing,
            )
            return res
        open_ax = {}
        for name, blk in res['assumptions'].items():
            if blk != 'Closed under the global context':
                axs = re.findall(r'^([\w.\']+)\s*:', blk, flags=re.M)
                extra = [a for a in axs if a not in allowed_axioms]
                if extra:
                    open_ax[name] = extra
        if open_ax:
            res['failing'] = props_rel + ': unexpected axioms %r' % open_ax
            return res
        res['ok'] = True
        self.cov['discharged'] = len(theorems)
        self.extra['print_assumptions'] = res['assumptions']
        return res

    def coq_eval(self, requires, exprs, preamble='', chunk=250, z_scope=True):
        '''Evaluate each Gallina expression with vm_compute; returns the list
        of parsed python values (same order).  `requires` e.g.
        ["DV.Model.Frame"].'''
        if not exprs:
            return []
        t_b = time.time()
        # the required modules (and what they depend on) must be up to date:
        # some are used by the correspondence only and are in no Props cone
        need = [r[3:].replace('.', '/') + '.v' for r in requires if r.startswith('DV.')]
        if need and need != getattr(self, '_built_for_eval', None):
            ok, bad, log, _ = build_cone(need)
            if not ok:
                raise CoqEvalError(bad, log[-3000:])
            self._built_for_eval = need
        head = ''.join('Require Import %s.\n' % r for r in requires)
        head += (
            'Require Import ZArith List String. Import ListNotations.\n'
            'Set Printing Width 100000000. Set Printing Depth 100000000.\n'
            'Set Warnings "-abstract-large-number".\n'
        )
        if z_scope:
            head += 'Open Scope Z_scope.\n'
        head += preamble + '\n'
        files = []
        d = os.path.join(self.work, 'eval%d' % len(os.listdir(self.work)))
        os.makedirs(d)
        for k in range(0, len(exprs), chunk):
            fn = os.path.join(d, 'cases_%d.v' % (k // chunk))
            with open(fn, 'w') as f:
                f.write(head)
                for e in exprs[k : k + chunk]:
                    f.write('Eval vm_compute in (%s).\n' % e)
            files.append(fn)
        procs = []
        results = []
        maxp = 14
        outs = {}
        pending = list(files)
        running = []
        while pending or running:
            while pending and len(running) < maxp:
                fn = pending.pop(0)
                p = subprocess.Popen(
                    'ulimit -s unlimited; timeout %d coqc -q -R %s DV %s'
                    % (COQ_TIMEOUT, COQ, fn),
                    shell=True,
                    stdout=subprocess.PIPE,
                    stderr=subprocess.STDOUT,
                    text=True,
                    cwd=d,
                )
                running.append((fn, p))
            fn, p = running.pop(0)
            out, _ = p.communicate()
            outs[fn] = (p.returncode, out)
        for fn in files:
            rc, out = outs[fn]
            if rc != 0:
                raise CoqEvalError(fn, out[-3000:])
            parts = re.split(r'^\s*= ', out, flags=re.M)[1:]
            for part in parts:
                # cut the trailing ": type"
                idx = part.rfind('\n     : ')
                body = part[:idx] if idx >= 0 else part
                results.append(parse_term(body))
        if len(results) != len(exprs):
            raise CoqEvalError(
                d, 'expected %d results, got %d' % (len(exprs), len(results))
            )
        shutil.rmtree(d, ignore_errors=True)
        self._phase('coq eval (%d exprs)' % len(exprs), t_b)
        return results

    # -- implementation side -------------------------------------------------
    def harness(self, script, payload, timeout=3000, extra_env=None):
        '''Run tools/harness/<script> under /venv/bin/python against
        /repo/Python.  payload (JSON-able) is written to a file whose path is
        argv[1]; the driver writes JSON to argv[2].'''
        t_b = time.time()
        fin = os.path.join(self.work, 'in_%d.json' % time.time_ns())
        fout = fin.replace('in_', 'out_')
        json.dump(payload, open(fin, 'w'))
        env = dict(os.environ)
        env.update(
            PYTHONPATH='%s/Python:%s/Test:%s' % (REPO, REPO, VERIF),
            PYTHONHASHSEED='0',
            VERIF_REPO=REPO,
            PYTHONDONTWRITEBYTECODE='1',
        )
        env[GUARD] = '1'
        if extra_env:
            env.update(extra_env)
        cmd = [PY, '-W', 'ignore',
               os.path.join(VERIF, 'tools', 'harness', script), fin, fout]
        p = subprocess.run(
            cmd, stdout=subprocess.PIPE, stderr=subprocess.STDOUT, text=True,
            env=env, timeout=timeout, cwd=self.work,
        )
        if p.returncode != 0 or not os.path.exists(fout):
            raise HarnessError(script, p.stdout[-4000:])
        res = json.load(open(fout))
        os.unlink(fin)
        os.unlink(fout)
        self._phase('harness ' + script, t_b)
        return res

    # -- verdicts ------------------------------------------------------------
    def _match_known(self, kind, fields):
        for f in self.findings:
            if (
                f.get('property') == self.pid
                and f.get('status') == 'open'
                and f.get('kind') == kind
                and all(fields.get(k) == v for k, v in f.get('match', {}).items())
            ):
                return f
        return None

    def violation(self, kind, fields, what, replay):
        '''A failing input was found on the implementation.'''
        kf = self._match_known(kind, fields)
        if kf is not None:
            key = kf['kind'] + json.dumps(kf.get('match', {}), sort_keys=True)
            self.known_hits[key] = self.known_hits.get(key, 0) + 1
            if key not in self._reported:
                self._reported.add(key)
                print(
                    'KNOWN-FINDING: property=%s %s' % (self.pid, kf['what']),
                    flush=True,
                )
            return False
        sig = kind + json.dumps(fields, sort_keys=True, default=str)
        if sig in self._reported:
            return True
        self._reported.add(sig)
        self.nviol += 1
        self.nconcrete = getattr(self, 'nconcrete', 0) + 1
        self.exit = 1
        path = self._write_replay(kind, dict(replay, kind=kind, fields=fields,
                                            what=what))
        print('[%s] %s' % (self.pid, what), flush=True)
        print('VIOLATION property=%s replay=%s' % (self.pid, path), flush=True)
        return True

    def broken(self, what, detail, replay=None):
        '''A proof obligation or the correspondence no longer checks and the
        search found no failing input.'''
        sig = 'broken' + what
        if sig in self._reported:
            return
        self._reported.add(sig)
        if getattr(self, 'nconcrete', 0):
            # a failing input is already on the table: the obligation that no
            # longer checks is recorded, the verdict is the violation reported
            self.extra.setdefault('broken_obligations_beside_a_failing_input', []).append(what)
            print('[%s] no longer checks (a failing input was already reported): %s' % (self.pid, what), flush=True)
            return
        self.nviol += 1
        self.exit = 1
        obj = dict(replay or {})
        obj.update(broken=what, detail=detail[-6000:] if detail else '',
                   note='no failing input was found by the search; the '
                   'property is no longer shown to hold')
        path = self._write_replay('broken', obj)
        print('[%s] no longer checks: %s' % (self.pid, what), flush=True)
        print(
            'VIOLATION property=%s replay=%s no-failing-input-found'
            % (self.pid, path),
            flush=True,
        )

    def _write_replay(self, kind, obj):
        os.makedirs(os.path.join(VERIF, 'replays'), exist_ok=True)
        obj = dict(obj, property=self.pid, seed=self.seed, tier=self.tier)
        blob = json.dumps(obj, sort_keys=True, default=str, indent=1)
        h = hashlib.sha1(blob.encode()).hexdigest()[:10]
        path = os.path.join(VERIF, 'replays', '%s-%s.json' % (self.pid, h))
        obj['how'] = './check %s --replay %s' % (self.pid, path)
        with open(path, 'w') as f:
            json.dump(obj, f, sort_keys=True, default=str, indent=1)
        return path

    def expect_known(self, kind, hit):
        '''Every open finding must keep reproducing (its witness is replayed
        on every run); if it stops, model and code have diverged.'''
        self.extra.setdefault('known_findings_replayed', {})[kind] = bool(hit)

    # -- evidence ------------------------------------------------------------
    def finish(self):
        shutil.rmtree(self.work, ignore_errors=True)
        try:
            os.rmdir(os.path.dirname(self.work))
        except OSError:
            pass
        cov = dict(self.cov)
        cov.update(self.extra)
        cov['known_finding_hits'] = self.known_hits
        ev = {
            'property_id': self.pid,
            'tier': self.tier,
            'seed': self.seed,
            'level': self.level,
            'coverage': cov,
            'assumptions': self.assumptions,
            'wall_s': round(time.time() - self.t0, 2),
            'violations': self.nviol,
        }
        if self.replay:
            self.log('replay run: evidence file left untouched; exit=%d' % self.exit)
            return self.exit
        os.makedirs(os.path.join(VERIF, 'evidence'), exist_ok=True)
        path = os.path.join(VERIF, 'evidence', '%s.json' % self.pid)
        if REPO != '/repo':
            # development run against a scratch worktree (VERIF_REPO): the
            # committed evidence describes runs against /repo only
            os.makedirs(os.path.join(VERIF, 'replays'), exist_ok=True)
            path = os.path.join(VERIF, 'replays', 'evidence-%s-scratch.json' % self.pid)
        tmp = path + '.tmp%d' % os.getpid()
        with open(tmp, 'w') as f:
            json.dump(ev, f, indent=1, sort_keys=True, default=str)
        os.replace(tmp, path)
        self.log(
            'done: exit=%d obligations=%d/%d evaluations=%d nontrivial=%d'
            % (
                self.exit,
                cov['discharged'],
                cov['obligations'],
                cov['evaluations'],
                cov['distinct_nontrivial'],
            )
        )
        return self.exit


class CoqEvalError(Exception):
    pass


class HarnessError(Exception):
    pass


# ---------------------------------------------------------------------------
# Coq build plumbing
# ---------------------------------------------------------------------------


class _lock:
    '''per-file advisory lock (coq/.locks/<name>) so that concurrent checks
    never compile or rewrite the same file at the same time.'''

    def __init__(self, name='global'):
        d = os.path.join(COQ, '.locks')
        os.makedirs(d, exist_ok=True)
        self.path = os.path.join(d, name.replace('/', '_'))

    def __enter__(self):
        self.fh = open(self.path, 'w')
        fcntl.flock(self.fh, fcntl.LOCK_EX)

    def __exit__(self, *a):
        fcntl.flock(self.fh, fcntl.LOCK_UN)
        self.fh.close()


def _vfiles():
    fs = []
    for sub in ('Model', 'Gen', 'Proofs', 'Props'):
        fs += sorted(glob.glob(os.path.join(COQ, sub, '*.v')))
    return [os.path.relpath(f, COQ) for f in fs]


def _coqdep():
    rc, out = sh('coqdep -R . DV ' + ' '.join(_vfiles()) + ' 2>/dev/null', cwd=COQ)
    deps = {}
    for line in out.splitlines():
        if ':' not in line:
            continue
        lhs, rhs = line.split(':', 1)
        tgt = [x for x in lhs.split() if x.endswith('.vo')]
        if not tgt:
            continue
        v = tgt[0][:-3] + '.v'
        deps[v] = [
            x[:-3] + '.v'
            for x in rhs.split()
            if x.endswith('.vo') and not x.startswith('/')
        ]
    return deps


def _stale(v, deps):
    src = os.path.join(COQ, v)
    vo = src[:-2] + '.vo'
    if not os.path.exists(vo):
        return True
    t = os.path.getmtime(vo)
    if os.path.getmtime(src) > t:
        return True
    for d in deps.get(v, []):
        dvo = os.path.join(COQ, d[:-2] + '.vo')
        if not os.path.exists(dvo) or os.path.getmtime(dvo) > t:
            return True
    return False


def _levels(files, deps):
    '''files grouped by dependency depth (level 0 first).'''
    depth = {}

    def d(f, stack=()):
        if f in depth:
            return depth[f]
        if f in stack:
            raise RuntimeError('dependency cycle through ' + f)
        ds = [x for x in deps.get(f, []) if x in files]
        depth[f] = 1 + max([d(x, stack + (f,)) for x in ds], default=-1)
        return depth[f]

    for f in files:
        d(f)
    out = {}
    for f, k in depth.items():
        out.setdefault(k, []).append(f)
    return [sorted(out[k]) for k in sorted(out)]


def _compile_one(v, deps):
    with _lock(v):
        if not _stale(v, deps):
            return 0, ''
        vo = os.path.join(COQ, v[:-2] + '.vo')
        if os.path.exists(vo):
            os.unlink(vo)
        return sh('timeout %d coqc -q -R . DV -w -notation-overridden,-deprecated %s'
                  % (COQ_TIMEOUT, v), cwd=COQ)


def build_cone(target_vs):
    '''Compile (full .vo) the targets and their dependencies, level by level,
    files of one level in parallel.  Returns (ok, failing, log, order).'''
    from concurrent.futures import ThreadPoolExecutor

    deps = _coqdep()
    cone, todo = set(), list(target_vs)
    while todo:
        f = todo.pop()
        if f in cone:
            continue
        cone.add(f)
        todo.extend(deps.get(f, []))
    order = []
    logs = []
    for level in _levels(cone, deps):
        order += level
        with ThreadPoolExecutor(max_workers=16) as ex:
            res = list(ex.map(lambda v: _compile_one(v, deps), level))
        for v, (rc, out) in zip(level, res):
            if out.strip():
                logs.append('--- %s\n%s' % (v, out[-3000:]))
            if rc != 0:
                return False, v, '\n'.join(logs)[-6000:], order
    return True, None, '\n'.join(logs)[-6000:], order


def build_all():
    '''setup_cmd: full build of the Coq tree.'''
    ok, bad, log, order = build_cone(_vfiles())
    print(log[-3000:])
    print('coq build: %s (%d files)%s' % ('ok' if ok else 'FAILED', len(order),
                                         '' if ok else ' at ' + str(bad)))
    return 0 if ok else 1


# ---------------------------------------------------------------------------
# entry point
# ---------------------------------------------------------------------------


def run_property(mod, argv):
    import argparse

    ap = argparse.ArgumentParser()
    ap.add_argument('--tier', default=os.environ.get('VERIF_TIER', 'quick'))
    ap.add_argument('--replay', default=None)
    a = ap.parse_args(argv)
    tier = a.tier if a.tier in ('quick', 'thorough') else 'quick'
    try:
        seed = int(os.environ.get('VERIF_SEED', '0'))
    except ValueError:
        seed = 0
    ctx = Ctx(mod.PID, tier, seed, a.replay)
    try:
        if a.replay and hasattr(mod, 'replay'):
            mod.replay(ctx, json.load(open(a.replay)))
        else:
            mod.run(ctx)
    except (CoqEvalError, HarnessError) as e:
        ctx.log('infrastructure failure: %s: %s' % (type(e).__name__, e.args))
        ctx.broken(
            'correspondence harness (%s)' % type(e).__name__,
            '\n'.join(str(x) for x in e.args),
        )
    except Exception as e:  # noqa: BLE001  a crash of the check is not a verdict
        import traceback
        tb = traceback.format_exc()
        ctx.log('the check itself failed: %s' % tb[-1500:])
        ctx.broken('check machinery (%s: %s)' % (type(e).__name__, str(e)[:200]), tb)
    return ctx.finish()
