'''Regenerate /verif/MANIFEST.json from the META dicts of props/Cxx.py.'''
import glob
import importlib
import json
import os

from . import core

ALL = ['C%02d' % i for i in range(1, 21)]


def modules():
    out = {}
    for f in sorted(glob.glob(os.path.join(core.VERIF, 'props', 'C[0-9][0-9].py'))):
        pid = os.path.basename(f)[:-3]
        out[pid] = importlib.import_module('props.' + pid)
    return out


def main():
    mods = modules()
    checks = []
    na = []
    for pid in ALL:
        m = mods.get(pid)
        meta = getattr(m, 'META', None) if m else None
        if not meta or meta.get('not_applicable'):
            na.append({'property_id': pid,
                       'reason': (meta or {}).get('not_applicable',
                                  'no check registered yet: the model/proof for this property has not been built; see DESIGN.md section 7')})
            continue
        checks.append({
            'property_id': pid,
            'quick_cmd': './check %s --tier quick' % pid,
            'thorough_cmd': './check %s --tier thorough' % pid,
            'evidence_file': '/verif/evidence/%s.json' % pid,
            'replay_cmd_template': './check %s --replay {path}' % pid,
            'engine': meta.get('engine', 'coq'),
            'level_claimed': {'category': meta.get('category', 'proof'),
                              'text': meta['text'],
                              'design_ref': meta.get('design_ref', 'DESIGN.md section 7, ' + pid)},
            'level_note': meta['note'],
            'technique': meta['technique'],
        })
    man = {
        'version': 1,
        'setup_cmd': './check --setup',
        'hooks': {
            'guard': core.GUARD,
            'enable': 'no hooks in /repo: all instrumentation is monkey-patching from the harness processes (tools/harness/*), which run with %s=1 and PYTHONPATH=/repo/Python' % core.GUARD,
            'baseline_off_cmd': 'cd /repo && /venv/bin/python -m pytest -ra -q -p no:cacheprovider --timeout=900 --continue-on-collection-errors',
            'source_commits': [],
            'add_only': True,
        },
        'engines': [
            {'name': 'coq', 'path': '/verif/coq',
             'serves_properties': [c['property_id'] for c in checks],
             'kind_free_text': 'Coq 8.16.1 development (stdlib only): Model/ executable Gallina models, Gen/ models regenerated from /repo sources by tools/translate, Proofs/ lemmas, Props/ property theorems + Print Assumptions; tied to /repo by translators and by correspondence drivers in tools/harness (vm_compute vs the real code)'},
        ],
        'checks': checks,
        'not_applicable': na,
        'notes': 'Entry point ./check <id>. See DESIGN.md. Known findings: /verif/known_findings.json. The baseline pytest command imports the dawgie release installed in /venv, not /repo/Python; every harness forces PYTHONPATH=/repo/Python and asserts it.',
    }
    with open(os.path.join(core.VERIF, 'MANIFEST.json'), 'w') as f:
        json.dump(man, f, indent=1)
    print('MANIFEST.json: %d checks, %d not_applicable' % (len(checks), len(na)))
    return 0


def setup():
    '''run every registered translator, then build the whole Coq tree.'''
    rc = 0
    for pid, m in modules().items():
        for g in getattr(m, 'GENERATORS', []):
            ctx = core.Ctx(pid, 'quick', 0)
            ok, msg = ctx.generate(*g)
            if not ok:
                print('setup: translator %s refused the source (%s); keeping the committed %s' % (g[0], msg.strip()[-200:], g[1]))
            import shutil
            shutil.rmtree(ctx.work, ignore_errors=True)
    return core.build_all() or rc
